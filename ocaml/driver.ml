(* Hand-written driver (trusted): reads one case per line in a space separated integer encoding,
   runs the extracted model, prints one canonical result per line.  usage: vsgmodel <mode> *)
open Model
let rec pos_of_int i : positive =
  if i = 1 then XH else if i land 1 = 0 then XO (pos_of_int (i lsr 1)) else XI (pos_of_int (i lsr 1))
let n_of_int i : n = if i = 0 then N0 else Npos (pos_of_int i)
let rec int_of_pos = function XH -> 1 | XO p -> 2 * int_of_pos p | XI p -> 2 * int_of_pos p + 1
let int_of_n = function N0 -> 0 | Npos p -> int_of_pos p
let rec nat_of_int i : nat = if i <= 0 then O else S (nat_of_int (i - 1))
let rec int_of_nat = function O -> 0 | S n -> 1 + int_of_nat n

let ints line = List.map int_of_string (List.filter (fun s -> s <> "") (String.split_on_char ' ' line))
let str_of_ints l = List.map n_of_int l
let show_str t = String.concat " " (List.map (fun c -> string_of_int (int_of_n c)) t)
let show_strs toks = String.concat " | " (List.map show_str toks)

let tokenizer line =
  match vsg_create (str_of_ints (ints line)) with
  | None -> "NONE"
  | Some toks -> show_strs toks

(* a list of lines: each line is terminated by -1 *)
let split_lines (l : int list) : int list list =
  let rec go cur acc = function
    | [] -> List.rev acc
    | (-1) :: r -> go [] (List.rev cur :: acc) r
    | x :: r -> go (x :: cur) acc r in
  go [] [] l
let show_tok (t : tok) = string_of_int (int_of_n (kind_code t.tk)) ^ ":" ^ show_str t.tv
let show_toks l = String.concat " | " (List.map show_tok l)
(* tokens on input: kind -2 cp cp ... -1 *)
let parse_toks (l : int list) : tok list =
  List.map (fun t -> match t with
     | k :: (-2) :: v -> { tk = kind_of_code (n_of_int k); tv = str_of_ints v }
     | _ -> failwith "bad token") (split_lines l)
let read_mode line =
  match vsg_read (List.map str_of_ints (split_lines (ints line))) with
  | None -> "NONE"
  | Some toks -> show_toks toks
let emit_mode line = show_strs (get_lines (parse_toks (ints line)))
let fbl_mode line = show_toks (fix_blank_lines (parse_toks (ints line)))
let ftw_mode line = show_toks (fix_trailing_whitespace (parse_toks (ints line)))

(* code tags: tokens "k -2 cps -1" with k = 0 other, 1 comment, 2 carriage return *)
let tags_mode line =
  let toks = List.map (fun t -> match t with
     | k :: (-2) :: v -> { ck = (match k with 2 -> CCr | 1 -> CComment | _ -> COther); cv = str_of_ints v }
     | _ -> failwith "bad token") (split_lines (ints line)) in
  String.concat " | " (List.map (fun tl -> String.concat " , " (List.map show_str tl)) (stamp toks))

(* tokens, then -3, then queries "rule-cps -2 idx idx ... -1": prints 1 if the violation is suppressed *)
let rec split_at3 acc = function
  | [] -> (List.rev acc, [])
  | (-3) :: r -> (List.rev acc, r)
  | x :: r -> split_at3 (x :: acc) r
let rec split_at2 acc = function
  | [] -> (List.rev acc, [])
  | (-2) :: r -> (List.rev acc, r)
  | x :: r -> split_at2 (x :: acc) r
let tagsq_mode line =
  let (tk, qs) = split_at3 [] (ints line) in
  let toks = List.map (fun t -> match t with
     | k :: (-2) :: v -> { ck = (match k with 2 -> CCr | 1 -> CComment | _ -> COther); cv = str_of_ints v }
     | _ -> failwith "bad token") (split_lines tk) in
  let stamps = Array.of_list (stamp toks) in
  String.concat " " (List.map (fun q ->
     let (rule, idxs) = split_at2 [] q in
     let sts = List.map (fun i -> stamps.(i)) idxs in
     if violation_suppressed sts (str_of_ints rule) then "1" else "0") (split_lines qs))

(* scheduler: "allp fix_phase -1 skip.. -1 rid phase sub disabled fixable error prereq nviol -1 ..." *)
let bool_of_int i = i <> 0
let sched_mode line =
  match split_lines (ints line) with
  | [allp; fixp] :: skip :: rs ->
    let rules = List.map (function
      | [rid; ph; sb; dis; fx; er; pr; _] ->
        { rid = nat_of_int rid; rphase = nat_of_int ph; rsub = nat_of_int sb; rdisabled = bool_of_int dis;
          rfixable = bool_of_int fx; rerror = bool_of_int er; rprereq = bool_of_int pr }
      | _ -> failwith "bad rule") rs in
    let nv = Hashtbl.create 64 in
    List.iter (function [rid; _; _; _; _; _; _; n] -> Hashtbl.replace nv rid n | _ -> ()) rs;
    let nviol r = nat_of_int (try Hashtbl.find nv (int_of_nat r.rid) with Not_found -> 0) in
    let skipn = List.map nat_of_int skip in
    let c = check_rules nviol rules (bool_of_int allp) skipn in
    let a = String.concat " " (List.map (fun r -> string_of_int (int_of_nat r.rid)) c.analysed) in
    let evs = fix_events rules (nat_of_int fixp) skipn in
    let e = String.concat " " (List.map (function
      | EFix r -> "F" ^ string_of_int (int_of_nat r.rid)
      | EAnalyze r -> "A" ^ string_of_int (int_of_nat r.rid)
      | EIndent -> "I" | ENormalise -> "N") evs) in
    Printf.sprintf "%s | %d | %d || %s" a (int_of_nat c.lastp) (if c.flag then 1 else 0) e
  | _ -> failwith "bad sched input"

(* fix_only: "hasdict fixable rid -1 lines.. -1 (rid sel sel ... -1)*"  sel: -5 = all, n = line *)
let fixonly_mode line =
  match split_lines (ints line) with
  | [hasd; fx; rid] :: lines :: entries ->
    let m = List.map (function
      | k :: sels -> (nat_of_int k, List.map (fun s -> if s = -5 then SAll else SLine (nat_of_int s)) sels)
      | [] -> failwith "bad entry") entries in
    let d = if hasd <> 0 then Some m else None in
    let r = { rid = nat_of_int rid; rphase = O; rsub = O; rdisabled = false; rfixable = bool_of_int fx; rerror = true; rprereq = false } in
    let kept = fixed_violations (fun (v : int) -> nat_of_int v) d r lines in
    String.concat " " (List.map string_of_int kept)
  | _ -> failwith "bad fixonly input"

(* report: "nsev -1" then one group per rule "line sev err sol line sev err sol ... -1"; sol identifies the row *)
let report_mode line =
  match split_lines (ints line) with
  | [nsev] :: rules ->
    let per_rule = List.mapi (fun i l ->
      let rec go = function
        | ln :: sv :: er :: so :: r -> { r_rule = nat_of_int i; r_line = nat_of_int ln; r_sev = nat_of_int sv; r_error = bool_of_int er; r_sol = nat_of_int so } :: go r
        | [] -> []
        | _ -> failwith "bad row" in go l) rules in
    let ids l = String.concat " " (List.map (fun x -> string_of_int (int_of_nat x.r_sol)) l) in
    Printf.sprintf "%s | %d | %s | %s | %d | %d" (ids (table_rows per_rule)) (int_of_nat (total per_rule))
      (String.concat " " (List.map (fun n -> string_of_int (int_of_nat n)) (sev_counts (nat_of_int nsev) per_rule)))
      (ids (junit_rows per_rule)) (if file_status per_rule then 1 else 0) (if summary_ok_by_type per_rule then 1 else 0)
  | _ -> failwith "bad report input"

(* write-back: "origmode stale stalemode defmode -1 o_stat o_open o_write o_close o_chmod o_replace o_remove -1"
   contents are ints: 0 empty, 1 original, 2 fixed, 3 partial, 9 stale *)
let wb_mode line =
  match split_lines (ints line) with
  | [om; stale; sm; dm] :: [a; b; c; d; e; f; g] :: _ ->
    let oc = function 0 -> Ok | 1 -> Crash | 2 -> CrashMid 3 | 3 -> PermErr | 4 -> OsErr | 5 -> OsErrMid 3 | _ -> failwith "bad outcome" in
    let sched = function SStat -> oc a | SOpen -> oc b | SWrite -> oc c | SClose -> oc d | SChmod -> oc e | SReplace -> oc f | SRemove -> oc g in
    let s = { target = Some { data = 1; mode = nat_of_int om };
              tmp = (if stale <> 0 then Some { data = 9; mode = nat_of_int sm } else None); bak = None } in
    let (s', r) = write_vhdl_file 0 sched (nat_of_int dm) s 2 in
    let show = function None -> "-" | Some fl -> Printf.sprintf "%d:%d" fl.data (int_of_nat fl.mode) in
    Printf.sprintf "%s %s %s" (show s'.target) (show s'.tmp) (match r with Returned -> "returned" | RaisedOut -> "raised" | Killed -> "killed")
  | _ -> failwith "bad wb input"

(* ---- trace checker: records of an observed fix run, one per line (see harness/tracer.py) ---- *)
let rk_of_int = function 0 -> RCode | 1 -> RWs | 2 -> RCr | 3 -> RBlank | 4 -> RComment | 5 -> RDText | 6 -> RPrep | _ -> RIgnore
let rec take n l = if n = 0 then ([], l) else match l with x :: r -> let (a, b) = take (n - 1) r in (x :: a, b) | [] -> failwith "short record"
(* tok: ident role kind len cp* *)
let rec parse_atoks n l =
  if n = 0 then ([], l) else
  match l with
  | id :: role :: kd :: len :: r ->
    let (cps, r') = take len r in
    let (ts, r'') = parse_atoks (n - 1) r' in
    ({ a_id = n_of_int id; a_role = n_of_int role; a_kind = rk_of_int kd; a_val = str_of_ints cps } :: ts, r'')
  | _ -> failwith "bad token record"
let canon (l : atok list) : string =
  let b = Buffer.create 65536 in
  List.iter (fun t ->
    Buffer.add_string b (string_of_int (int_of_n t.a_id)); Buffer.add_char b ':';
    Buffer.add_string b (string_of_int (int_of_n t.a_role)); Buffer.add_char b ':';
    List.iter (fun c -> Buffer.add_string b (string_of_int (int_of_n c)); Buffer.add_char b ',') t.a_val;
    Buffer.add_char b ';') l;
  Digest.to_hex (Digest.string (Buffer.contents b))
let b2i b = if b then 1 else 0
let trace_file path =
  let ic = open_in path in
  let cur = ref [] in
  let init = ref [] in
  (try
    while true do
      let line = input_line ic in
      match String.split_on_char ' ' line with
      | "I" :: rest ->
        let l = List.map int_of_string (List.filter (fun s -> s <> "") rest) in
        (match l with n :: r -> let (ts, _) = parse_atoks n r in cur := ts; init := ts; Printf.printf "I %d %d %d %d %d\n" n (b2i (kinds_ok ts)) (int_of_nat (n_lines ts)) (b2i (shape_ok ts)) (b2i (glue_free ts)) | _ -> failwith "bad I")
      | "R" :: tag :: digest :: rest ->
        let l = List.map int_of_string (List.filter (fun s -> s <> "") rest) in
        (match l with
         | ne :: r ->
           let rec edits k r = if k = 0 then ([], r) else
             (match r with
              | st :: en :: _ln :: nn :: r1 ->
                let (ts, r2) = parse_atoks nn r1 in
                let (es, r3) = edits (k - 1) r2 in
                ({ e_start = nat_of_int st; e_stop = nat_of_int en; e_new = ts } :: es, r3)
              | _ -> failwith "bad edit") in
           let (es, _) = edits ne r in
           let nl_before = int_of_nat (n_lines !cur) in
           let v = judge !cur es in
           let replay = (canon v.v_after = digest) in
           cur := v.v_after;
           Printf.printf "R %s %d %d %d %d %d %d %d %d %d %d %d %d %d %d %d %d %d %d %d |%s\n" tag (b2i v.v_wf) (b2i replay) (b2i v.v_c01) (b2i v.v_c01_strict) (b2i v.v_paren) (b2i v.v_lenpres)
             (b2i v.v_c02) (b2i v.v_c02_rem) (b2i v.v_layout) (b2i v.v_case) (b2i v.v_ident) (b2i v.v_same_count) (b2i v.v_cterm) (b2i v.v_wsadj) (b2i v.v_kinds_ok) (b2i v.v_shape) (b2i v.v_glue) (b2i v.v_c02_trail) nl_before
             (String.concat "" (List.map (fun n -> " " ^ string_of_int (int_of_nat n)) v.v_changed))
         | _ -> failwith "bad R")
      | "S" :: isnorm :: rest ->
        let l = List.map int_of_string (List.filter (fun s -> s <> "") rest) in
        (match l with
         | n :: r ->
           let (ts, _) = parse_atoks n r in
           let ok =
             if isnorm = "1" then coarse (normalise !cur) = coarse (List.map to_tok ts)
             else canon !cur = canon ts in
           cur := ts; Printf.printf "S %s %d %d %d\n" isnorm (b2i ok) (b2i (shape_ok ts)) (b2i (glue_free ts))
         | _ -> failwith "bad S")
      | "E" :: digest :: _ -> Printf.printf "E %d %d %d %d %d %d %d\n" (b2i (canon !cur = digest)) (b2i (run_c01 !init !cur)) (b2i (run_c02_eq !init !cur)) (b2i (run_c02_sub !init !cur)) (int_of_nat (n_lines !cur)) (b2i (shape_ok !cur)) (b2i (glue_free !cur))
      | _ -> ()
    done
  with End_of_file -> ());
  close_in ic

(* configuration: a counted integer stream, see harness/c12.py (enc_case) *)
let config_mode line =
  let st = ref (ints line) in
  let next () = match !st with x :: r -> st := r; x | [] -> failwith "short config input" in
  let nat () = nat_of_int (next ()) in
  let rec times n f = if n = 0 then [] else let x = f () in x :: times (n - 1) f in
  let pairs () = let n = next () in times n (fun () -> let k = nat () in let v = nat () in (k, v)) in
  let nats () = let n = next () in times n nat in
  let sev = nat () in
  let sevlist = nats () in
  let nrules = next () in
  let rules = times nrules (fun () ->
    let uid = nat () in let dep = next () <> 0 in
    let groups = nats () in let conf = nats () in let dict = pairs () in let opts = pairs () in
    let sv = next () in
    { o_uid = uid; o_groups = groups; o_conf = conf; o_dict = dict; o_opts = opts;
      o_sev = (if sv < 0 then None else Some (nat_of_int sv)); o_deprecated = dep }) in
  let section () =
    let g = if next () <> 0 then Some (pairs ()) else None in
    let gr = if next () <> 0 then (let n = next () in Some (times n (fun () -> let name = nat () in let e = pairs () in (name, e)))) else None in
    let n = next () in
    let rs = times n (fun () -> let uid = nat () in let e = pairs () in (uid, e)) in
    { s_global = g; s_group = gr; s_rules = rs } in
  let optsec () = if next () <> 0 then Some (section ()) else None in
  let nfiles = next () in
  let files = times nfiles optsec in
  let stage () = match next () with 0 -> None | _ -> Some (optsec ()) in
  let fl = stage () in
  let fr = stage () in
  match configure_rules sev sevlist (merge_configs files) fl fr rules with
  | CError -> "ERR"
  | COk rs ->
    String.concat " | " (List.map (fun o ->
      Printf.sprintf "%d : %s : %s : %s" (int_of_nat o.o_uid) (match o.o_sev with None -> "-" | Some n -> string_of_int (int_of_nat n))
        (String.concat " " (List.map (fun (k, v) -> string_of_int (int_of_nat k) ^ "=" ^ string_of_int (int_of_nat v)) o.o_dict))
        (String.concat " " (List.map (fun (k, v) -> string_of_int (int_of_nat k) ^ "=" ^ string_of_int (int_of_nat v)) o.o_opts))) rs)

(* token index: "LOGICAL PARSER COMMA OPENPAREN -1 b s b s ... -1 qb qs qb qs ... -1" -> positions per query *)
let index_mode line =
  let rec pairs = function a :: b :: r -> (nat_of_int a, nat_of_int b) :: pairs r | _ -> [] in
  match split_lines (ints line) with
  | [lo; pa; co; op] :: keys :: qs :: _ ->
    let l = pairs keys in
    String.concat " | " (List.map (fun q ->
      String.concat " " (List.map (fun n -> string_of_int (int_of_nat n)) (index (nat_of_int lo) (nat_of_int pa) (nat_of_int co) (nat_of_int op) q l))) (pairs qs))
  | _ -> failwith "bad index input"

let () =
  if Array.length Sys.argv > 2 && Sys.argv.(1) = "trace" then (trace_file Sys.argv.(2); exit 0);
  let mode = if Array.length Sys.argv > 1 then Sys.argv.(1) else "tokenizer" in
  let f = match mode with
    | "tokenizer" -> tokenizer
    | "config" -> config_mode
    | "index" -> index_mode
    | "wb" -> wb_mode
    | "report" -> report_mode
    | "sched" -> sched_mode
    | "fixonly" -> fixonly_mode
    | "tags" -> tags_mode
    | "tagsq" -> tagsq_mode
    | "read" -> read_mode
    | "emit" -> emit_mode
    | "fbl" -> fbl_mode
    | "ftw" -> ftw_mode
    | _ -> failwith ("unknown mode " ^ mode) in
  try
    while true do
      let line = input_line stdin in
      print_string (f line); print_newline ()
    done
  with End_of_file -> ()
