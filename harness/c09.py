# C09: fixing converges
import json
import vlib, tracechecks as T


def evaluate(ck, data, rules, docg):
    n = conv = 0
    for o in T.runs(data):
        if o["status"] != "ok" or "refix_changes" not in o:
            continue
        n += 1
        if o["refix_changes"] == 0:
            conv += 1
            continue
        who = (sorted(o.get("left_fixable", [])) or ["none-left-reporting:first-editor:%s" % o["refix_first_editor"] if o.get("refix_first_editor") else "none-left-reporting@" + o["rel"]])[0]
        if o["rel"].startswith("corpus_min/"):  # purpose-made inputs are identified as such: the same rule failing elsewhere is another finding
            who += "@" + o["rel"]
        d = o.get("refix_first_diff", {})
        if o.get("refix_cycle"):
            ck.violation("oscillates:%s" % who, "%s: repeated --fix cycles with period %d; rules still reporting after the first run: %r" % (T.tag(o), o["refix_cycle"], o.get("left_fixable", [])[:5]), T.rep(o, oracle="refix", detail=d))
        else:
            ck.violation("second-fix-changes:%s" % who, "%s: a second --fix changes line %s (%r -> %r); fixable rules still reporting after the first run: %r" % (T.tag(o), d.get("line"), d.get("first"), d.get("second"), o.get("left_fixable", [])[:5]), T.rep(o, oracle="refix", detail=d))
    ck.sample({"fix_runs": n, "converged_after_one": conv})
    return {"fix_runs_repeated": n, "converged_after_one_run": conv, "evaluations": n}


def run(tier):
    return T.run_prop("C09", tier, "translation_validation", evaluate,
                      "every observed fix run of the shared trace is followed by up to 2 (thorough: 4) further fix runs of the emitted text with the real code, texts compared and cycles detected; a failing case names the fixable rules that still report after the first run (the rule whose postcondition a later rule destroyed)",
                      ["decomposition: if the re-read model equals the in-memory model (C08) and no enabled fixable rule reports on it, a second run is the identity because a rule without violations performs no update (C20 / C03 theorems) and the normalisers are idempotent on their own output"])


def replay(rp):
    return T.replay(rp)
