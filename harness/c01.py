# C01: fixing never changes what the VHDL means
import json
import vlib, tracechecks as T


def evaluate(ck, data, rules, docg):
    tab = T.table()
    n_ok = n_paren = n_split = n_pointwise = 0
    for o in T.runs(data):
        for em in o.get("end_name_mismatch") or []:
            ck.violation("inserted-end-name-does-not-match:" + em["module"], "%s: the run added the name %r after 'end' of a %s that starts with the name %r" % (T.tag(o), em["found"], em["module"], em["expected"]), T.rep(o, oracle="end-name", detail=em))
        split_fired = False
        if o.get("init_glue") and o.get("end_glue") is False:
            who = T.blame(o, "glue", "init_glue")
            ck.violation("edit-glues-code-tokens:%s" % (who or "@" + o["rel"]), "%s: after %s two code tokens stand next to each other with nothing between them and read as a different lexical element (the emitted text merges them)" % (T.tag(o), who), T.rep(o, oracle="glue"))
        for r in o["records"]:
            if "c01" not in r:
                continue
            rid = r["rule"]
            if rid in tab["split_rules"]:
                n_split += 1
                split_fired = True
            elif r["c01"]:
                n_ok += 1
            elif rid in tab["paren_rules"] and r["paren"]:
                n_paren += 1
            else:
                ck.violation("edit-changes-code-tokens:" + rid, "%s: %s replaced a slice by one with different essential code tokens (inserted %r, deleted %r)" % (T.tag(o), rid, r.get("ins"), r.get("del")), T.rep(o, r, oracle="edit"))
            if not r["wf"]:
                # the hypothesis of update_congruence; length-preserving pointwise edits are covered by update_pointwise
                if r["lenpres"] and r["case"]:
                    n_pointwise += 1
                else:
                    ck.violation("overlapping-edits:" + rid, "%s: the edits %s hands to update overlap or are out of order and change length: the slices it analysed are not the slices that get replaced (spans %r)" % (T.tag(o), rid, r.get("spans")), T.rep(o, r, oracle="wf"))
        if o["status"] == "ok" and not split_fired and o.get("run_c01") is False:
            ck.violation("run-changes-code-tokens:" + (",".join(sorted({r["rule"] for r in o["records"] if not r.get("c01", True) or not r.get("wf", True)})[:3]) or "@" + o["rel"]), "%s: the essential code tokens after the run differ from those before it" % T.tag(o), T.rep(o, oracle="run"))
        if o.get("reread_rejected"):
            ck.violation("fixed-text-rejected:" + (",".join(sorted({r["rule"] for r in o["records"] if not r.get("wf", True)})[:2]) or (T.blame(o, "glue", "init_glue") if o.get("init_glue") else None) or T.blame(o, "shape", "init_shape") or "@" + o["rel"]), "%s: the fixed text is no longer accepted: %s" % (T.tag(o), o["reread_rejected"]), T.rep(o, oracle="reread"))
    ck.sample({"edit_obligations_passed": n_ok, "via_parenthesis_relaxation": n_paren, "split_rule_applications_deferred": n_split})
    return {"edits_ok": n_ok, "paren_relaxed": n_paren, "split_rule_applications": n_split, "pointwise_steps": n_pointwise, "samples": ck.cov["samples"]}


def run(tier):
    return T.run_prop("C01", tier, "translation_validation", evaluate,
                      "every rule application that changed a file in an observed full fix run (corpus sample x default / jcl; thorough: whole corpus x default, jcl, indent_only) is replayed through the extracted update model and judged by the extracted obligations (wf, essential code tokens per edit, parenthesis relaxation for condition rules); distinct = rules that changed a file",
                      ["the optional-element table optional_roles.json is part of the statement", "declaration-split rules (signal_015, port_026) are judged end to end only (whole-run comparison is skipped when they fire; re-read acceptance still applies)", "rules are constrained components: the theorems hold for every run whose edits pass the obligations; this run validates that the observed edits do"])


def replay(rp):
    return T.replay(rp)
