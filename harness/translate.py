# T1: fail-closed translators from /repo sources to Coq tables (coq/gen/*.v). Every function takes the
# repo root and returns Coq text; any source shape it does not recognise raises (the tie is then broken).
import ast, os


def cstr(s):
    for c in s:
        if ord(c) > 0x10FFFF:
            raise ValueError("bad code point")
    return "[" + "; ".join(str(ord(c)) for c in s) + "]%N"


def clist(l):
    return "[" + "; ".join(cstr(s) for s in l) + "]"


def module_literals(path, names):
    mod = ast.parse(open(path).read())
    vals = {}
    for n in mod.body:
        if isinstance(n, ast.Assign) and len(n.targets) == 1 and isinstance(n.targets[0], ast.Name) and n.targets[0].id in names:
            vals[n.targets[0].id] = ast.literal_eval(n.value)
    for k in names:
        if k not in vals:
            raise ValueError("%s: no literal assignment to %s" % (path, k))
        if not (isinstance(vals[k], list) and all(isinstance(x, str) for x in vals[k])):
            raise ValueError("%s: %s is not a list of strings" % (path, k))
    return vals


def gen_symbols(repo):
    """vsg/tokens.py: symbol tables + the fixed pass order of create()"""
    path = os.path.join(repo, "vsg", "tokens.py")
    names = ["lSingleCharacterSymbols", "lTwoCharacterSymbols", "lThreeCharacterSymbols", "lStopChars"]
    vals = module_literals(path, names)
    # the pass list of create() must be the one the model implements, in that order
    mod = ast.parse(open(path).read())
    create = [n for n in mod.body if isinstance(n, ast.FunctionDef) and n.name == "create"]
    if len(create) != 1:
        raise ValueError("tokens.create not found")
    calls = []
    for st in create[0].body:
        if isinstance(st, ast.Expr) and isinstance(st.value, ast.Call) and isinstance(st.value.func, ast.Attribute):
            calls.append(st.value.func.attr)
    expected = [
        "combine_whitespace",
        "combine_string_literals",
        "combine_backslash_characters_into_symbols",
        "combine_three_character_symbols",
        "combine_two_character_symbols",
        "combine_characters_into_words",
        "combine_character_literals",
        "split_natural_numbers",
        "split_bit_string_literal_integer_and_base_specifier",
    ]
    if calls != expected:
        raise ValueError("tokens.create pass list changed: %r" % calls)
    out = ["From Coq Require Import List NArith.", "Import ListNotations.", "Require Import Tokenizer."]
    for py, coq in zip(names, ["single_syms", "two_syms", "three_syms", "stop_chars"]):
        out.append("Definition %s : list str := %s." % (coq, clist(vals[py])))
    out.append("Definition vsg_create (s : str) : option (list str) := create single_syms two_syms three_syms stop_chars s.")
    return "\n".join(out) + "\n"


TRANSLATORS = {"Symbols.v": gen_symbols}
