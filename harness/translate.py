# T1: fail-closed translators from /repo sources to Coq tables (coq/gen/*.v). Every function takes the
# repo root and returns Coq text; any source shape it does not recognise raises (the tie is then broken).
import ast, os


def cstr(s):
    for c in s:
        if ord(c) > 0x10FFFF:
            raise ValueError("bad code point")
    return "[" + "; ".join(str(ord(c)) for c in s) + "]%N"


def clist(l):
    return "[" + "; ".join(cstr(s) for s in l) + "]"


def module_literals(path, names):
    mod = ast.parse(open(path).read())
    vals = {}
    for n in mod.body:
        if isinstance(n, ast.Assign) and len(n.targets) == 1 and isinstance(n.targets[0], ast.Name) and n.targets[0].id in names:
            vals[n.targets[0].id] = ast.literal_eval(n.value)
    for k in names:
        if k not in vals:
            raise ValueError("%s: no literal assignment to %s" % (path, k))
        if not (isinstance(vals[k], list) and all(isinstance(x, str) for x in vals[k])):
            raise ValueError("%s: %s is not a list of strings" % (path, k))
    return vals


def gen_symbols(repo):
    """vsg/tokens.py: symbol tables + the fixed pass order of create()"""
    path = os.path.join(repo, "vsg", "tokens.py")
    names = ["lSingleCharacterSymbols", "lTwoCharacterSymbols", "lThreeCharacterSymbols", "lStopChars"]
    vals = module_literals(path, names)
    # the pass list of create() must be the one the model implements, in that order
    mod = ast.parse(open(path).read())
    create = [n for n in mod.body if isinstance(n, ast.FunctionDef) and n.name == "create"]
    if len(create) != 1:
        raise ValueError("tokens.create not found")
    calls = []
    for st in create[0].body:
        if isinstance(st, ast.Expr) and isinstance(st.value, ast.Call) and isinstance(st.value.func, ast.Attribute):
            calls.append(st.value.func.attr)
    expected = [
        "combine_whitespace",
        "combine_string_literals",
        "combine_backslash_characters_into_symbols",
        "combine_three_character_symbols",
        "combine_two_character_symbols",
        "combine_characters_into_words",
        "combine_character_literals",
        "split_natural_numbers",
        "split_bit_string_literal_integer_and_base_specifier",
    ]
    if calls != expected:
        raise ValueError("tokens.create pass list changed: %r" % calls)
    out = ["From Coq Require Import List NArith.", "Import ListNotations.", "Require Import Tokenizer."]
    for py, coq in zip(names, ["single_syms", "two_syms", "three_syms", "stop_chars"]):
        out.append("Definition %s : list str := %s." % (coq, clist(vals[py])))
    out.append("Definition vsg_create (s : str) : option (list str) := create single_syms two_syms three_syms stop_chars s.")
    return "\n".join(out) + "\n"


def gen_roletable(repo):
    """every token class with the kind VSG's isinstance tests give it; roles whose text is always case-folded;
    the committed table of optional (redundant) element roles, resolved against the live classes"""
    import json, roletable, vlib

    rows = roletable.load()
    kinds = {"code": "RCode", "ws": "RWs", "cr": "RCr", "blank": "RBlank", "comment": "RComment", "dtext": "RDText", "prep": "RPrep", "ignore": "RIgnore", "bof": "RCode"}
    names = {r["name"]: r["id"] for r in rows}
    opt = json.load(open(os.path.join(vlib.VERIF, "optional_roles.json")))
    missing = [n for n in opt["optional"] if n not in names]
    if missing:
        raise ValueError("optional_roles.json names unknown token classes: %r" % missing[:5])
    fold = [r["id"] for r in rows if r["name"].endswith(".bit_value_string")]
    out = ["From Coq Require Import List Arith NArith.", "Import ListNotations.", "Require Import Equiv.",
           "Definition role_kind_table : list rkind := [" + "; ".join(kinds[r["kind"]] for r in rows) + "].",
           "Definition role_kind (r : N) : rkind := nth (N.to_nat r) role_kind_table RCode.",
           "Definition always_fold_roles : list N := [" + "; ".join("%d%%N" % x for x in fold) + "].",
           "Definition optional_roles : list N := [" + "; ".join("%d%%N" % names[n] for n in opt["optional"]) + "].",
           "Definition always_fold (r : N) : bool := existsb (N.eqb r) always_fold_roles.",
           "Definition optional (r : N) : bool := existsb (N.eqb r) optional_roles.",
           "Definition n_roles : nat := %d." % len(rows)]
    return "\n".join(out) + "\n"


GROUPS = ["none", "structure", "whitespace", "blank_line", "indent", "alignment", "case", "naming", "length"]


def parse_docs(repo):
    """docs/*_rules.rst -> {rule id: dict(phase, error, group, unfixable, disabled)}; fail closed on unknown labels"""
    import glob, re

    known = set("error warning unfixable disabled".split()) | {"phase_%d" % i for i in range(1, 8)} | set(GROUPS) | {"structure_optional", "case_keyword", "case_name", "case_label"}
    docs = {}
    for path in sorted(glob.glob(os.path.join(repo, "docs", "*_rules.rst"))):
        lines = open(path).read().split("\n")
        cur = None
        for i, l in enumerate(lines):
            if i + 1 < len(lines) and re.fullmatch(r"#{4,}", lines[i + 1].strip()) and re.fullmatch(r"[a-z_]+_\d{3}", l.strip()):
                cur = l.strip()
                docs[cur] = {"labels": []}
                continue
            if cur and re.match(r"^\|[a-z_0-9]+\|", l.strip()) and not docs[cur]["labels"]:
                labs = re.findall(r"\|([a-z_0-9:]+)\|", l)
                docs[cur]["labels"] = labs
    out = {}
    for rid, d in docs.items():
        labs = [x for x in d["labels"] if not x.startswith("configuring_")]
        for x in labs:
            if x not in known:
                raise ValueError("docs: unknown label |%s| at rule %s" % (x, rid))
        ph = [int(x[6:]) for x in labs if x.startswith("phase_")]
        grp = [x for x in labs if x in GROUPS or x == "structure_optional"]
        out[rid] = dict(phase=ph[0] if ph else 0, error=("error" in labs), warning=("warning" in labs), group=(grp[0].replace("structure_optional", "structure") if grp else "none"),
                        unfixable=("unfixable" in labs), disabled=("disabled" in labs), labelled=bool(labs))
    return out


def gen_ruledoc(repo):
    """RuleTable + DocTable over the same list of rule ids (implemented, non-deprecated rules)"""
    import ruletable

    rows = [r for r in ruletable.load() if not r["deprecated"]]
    docs = parse_docs(repo)
    ids = [r["id"] for r in rows]
    out = ["From Coq Require Import List Arith Bool.", "Import ListNotations.",
           "(* one row per implemented rule: phase, group, fixable, disable by default, error severity *)",
           "Record rrow := mkrrow { rr_phase : nat; rr_group : nat; rr_fixable : bool; rr_disabled : bool; rr_error : bool; rr_documented : bool }."]

    def b(x):
        return "true" if x else "false"

    code, doc = [], []
    for r in rows:
        g = r["groups"][0] if r["groups"] else "none"
        if g not in GROUPS:
            raise ValueError("rule %s: unknown group %r" % (r["id"], g))
        code.append("mkrrow %d %d %s %s %s true" % (r["phase"] or 0, GROUPS.index(g), b(r["fixable"] and r["overrides_fix"]), b(r["disable"]), b(r["sev_type"] == "error")))
        d = docs.get(r["id"])
        if d is None or not d["labelled"]:
            doc.append("mkrrow 0 0 false false false false")
        else:
            doc.append("mkrrow %d %d %s %s %s true" % (d["phase"], GROUPS.index(d["group"]), b(not d["unfixable"]), b(d["disabled"]), b(d["error"])))
    out.append("Definition rule_rows : list rrow := [" + ";\n ".join(code) + "].")
    out.append("Definition doc_rows : list rrow := [" + ";\n ".join(doc) + "].")
    out.append("Definition n_rules : nat := %d." % len(rows))
    out.append("(* rule ids in row order: " + " ".join(ids[:5]) + " ... *)")
    return "\n".join(out) + "\n"


TRANSLATORS = {"Symbols.v": gen_symbols, "RoleTable.v": gen_roletable, "RuleDoc.v": gen_ruledoc}
