# C03: each phase only makes the kind of change it is documented to make
import json
import vlib, tracechecks as T


def docs_vs_rules(ck):
    """the concrete rows behind C03_docs_agree: when the Coq table theorem breaks, this names the rule"""
    import translate, ruletable

    docs = translate.parse_docs(vlib.REPO)
    n = 0
    for r in ruletable.load():
        if r["deprecated"]:
            continue
        d = docs.get(r["id"])
        n += 1
        if not d or not d["labelled"]:
            if r["phase"]:
                ck.violation("docs-disagree:undocumented:" + r["id"], "%s runs in phase %s but has no documentation labels" % (r["id"], r["phase"]), {"kind": "input", "rule": r["id"]})
            continue
        g = r["groups"][0] if r["groups"] else "none"
        code = (r["phase"] or 0, g, bool(r["fixable"] and r["overrides_fix"]), bool(r["disable"]), r["sev_type"] == "error")
        doc = (d["phase"], d["group"], not d["unfixable"], d["disabled"], d["error"])
        if code != doc:
            ck.violation("docs-disagree:" + r["id"], "%s is documented as (phase, group, fixable, disabled, error) = %r but the rule object says %r" % (r["id"], doc, code), {"kind": "input", "rule": r["id"], "documented": doc, "rule_object": code})
    return n


def evaluate(ck, data, rules, docg):
    ck.cov["rules_compared_with_docs"] = docs_vs_rules(ck)
    cnt = {"layout": 0, "case": 0, "structure": 0}
    for o in T.runs(data):
        for r in o["records"]:
            if "layout" not in r:
                continue
            rid = r["rule"]
            g = T.group_of(rules, docg, rid)
            if not rules.get(rid, {}).get("fixable", True):
                ck.violation("unfixable-rule-changed-file:" + rid, "%s: %s is marked unfixable / fixable: false but changed the file" % (T.tag(o), rid), T.rep(o, r))
            if g in T.LAYOUT_GROUPS:
                cnt["layout"] += 1
                if not r["layout"]:
                    ck.violation("layout-rule-changes-text:%s:%s" % (g, rid), "%s: %s is documented as %s but changed something other than spaces, tabs, line breaks and blank lines" % (T.tag(o), rid, g), T.rep(o, r, group=g))
            elif g == "case":
                cnt["case"] += 1
                if not r["case"] or not (r["wf"] or r["lenpres"]):
                    ck.violation("case-rule-changes-more-than-case:" + rid, "%s: %s is documented as a capitalisation rule but changed a literal, a length or something that is not letter case" % (T.tag(o), rid), T.rep(o, r, group=g))
            elif g == "structure":
                cnt["structure"] += 1
            else:
                ck.violation("report-only-rule-changed-file:%s:%s" % (g, rid), "%s: %s (group %s) may not change the file at all" % (T.tag(o), rid, g), T.rep(o, r, group=g))
    ck.sample(cnt)
    return {"applications_by_class": cnt}


def extra(ck, data, rules, docg):
    """the report-only configurations: fixable: false, disable: true, warning severity -> the file is untouched"""
    import os, tempfile, shutil, corpus

    r = vlib.rng("c03")
    pool = [f for f in corpus.files() if "test_input.vhd" in f and os.path.getsize(f) < 6000]
    files = r.sample(pool, 24 if ck.tier == "thorough" else 6)
    tmp = tempfile.mkdtemp(prefix="c03_", dir=vlib.BUILD)
    n = 0
    try:
        for k, (name, cfg) in enumerate((("fixable-false", "rule:\n  global:\n    fixable: false\n"), ("disabled", "rule:\n  global:\n    disable: true\n"), ("warning", "rule:\n  global:\n    severity: Warning\n"))):
            c = os.path.join(tmp, "c%d.yaml" % k)
            open(c, "w").write(cfg)
            for i, src in enumerate(files):
                f = os.path.join(tmp, "f%d_%d.vhd" % (k, i))
                shutil.copy(src, f)
                st0 = (open(f, "rb").read(), os.stat(f).st_ino, os.stat(f).st_mtime_ns)
                rc, out = vlib.sh(vlib.vsg_cmd() + ["-f", f, "-c", c, "--fix", "-p", "1"], env=vlib.repo_env(), timeout=600)
                n += 1
                st1 = (open(f, "rb").read(), os.stat(f).st_ino, os.stat(f).st_mtime_ns)
                if st0 != st1:
                    ck.violation("report-only-config-changes-file:" + name, "%s with every rule configured %s: --fix modified the file" % (os.path.relpath(src, vlib.REPO), name), {"kind": "input", "file": os.path.relpath(src, vlib.REPO), "config": cfg})
    finally:
        shutil.rmtree(tmp, ignore_errors=True)
    ck.cov["report_only_cli_runs"] = n


def run(tier):
    return T.run_prop("C03", tier, "translation_validation", evaluate,
                      "every rule application that changed a file in the shared observed fix runs, judged by the obligation of the rule's documented group (layout groups: non-layout tokens keep identity, role, text; case: one-for-one, case-only, equal length, literals exact; naming / length / unfixable: no change); plus CLI runs with every rule fixable: false / disabled / Warning",
                      ["a rule's class is its documented group (docs/*_rules.rst), proved equal to the rule object's metadata by C03_docs_agree on this run's tables"], extra=extra)


def replay(rp):
    return T.replay(rp)
