# C15: a file's result does not depend on jobs, order, neighbours or input channel
import os, sys, json, re, shutil, tempfile, subprocess, itertools
import xml.etree.ElementTree as ET
from multiprocessing import Pool
import vlib, corpus

BAD = "entity e is\n  port (a : in std_logic\nend entity e;\narchitecture a of e is begin begin end;\n"


# neighbours that leave the reader in an unusual state at their end: whatever a file leaves behind must not reach
# the next file handled by the same process
_BODY = "library ieee;\n  use ieee.std_logic_1164.all;\n\nentity nb is\n  port (\n    a : in    std_logic\n  );\nend entity nb;\n\n"
SPECIAL = {
    "BAD": BAD,
    "OPEN_COMP_OFF": _BODY + "--vhdl_comp_off\nthis text is not vhdl ( ;\n",
    "OPEN_RTL_SYNTHESIS_OFF": _BODY + "-- RTL_SYNTHESIS OFF\nthis text is not vhdl ( ;\n",
    "OPEN_SYNTH_OFF": _BODY + "-- synthesis translate_off\nthis text is not vhdl ( ;\n",
    "OPEN_DELIM": _BODY + "/* a delimited comment that is never closed\narchitecture x of nb is\n",
    "OPEN_TAG": _BODY + "-- vsg_off\narchitecture   RTL   of nb   is\nbegin\nend   architecture RTL;\n",
    "OPEN_TAG_NAMED": "-- vsg_off entity_001 library_008 port_007\n" + _BODY,
}


def run_cli(args, cwd, stdin=None):
    p = subprocess.run(vlib.vsg_cmd() + args, cwd=cwd, env=vlib.repo_env(), stdout=subprocess.PIPE, stderr=subprocess.PIPE, text=True, timeout=1800, input=stdin)
    return p.returncode, p.stdout, p.stderr


def split_stdout(text):
    """standard format: one block per file, in output order"""
    blocks, cur, name = [], None, None
    lines = text.split("\n")
    for i, l in enumerate(lines):
        if l.startswith("=" * 20) and i + 2 < len(lines) and lines[i + 1].startswith("File:  ") and lines[i + 2].startswith("=" * 20):
            cur = []
            name = lines[i + 1][7:]
            blocks.append((name, cur))
        if cur is not None:
            cur.append(l)
    return [(n, "\n".join(b).rstrip("\n")) for n, b in blocks]


def one_run(d, names, cfg, jobs, fix, extra=()):
    """returns per file: stdout block, json entry, junit lines, fixed text; plus order of outputs and exit code"""
    args = ["-f"] + names + ["-p", str(jobs), "--json", "j.json", "--junit", "j.xml"] + (["-c", cfg] if cfg else []) + (["--fix"] if fix else []) + list(extra)
    rc, so, se = run_cli(args, d)
    out = {"rc": rc, "stderr": se, "order": [], "files": {}}
    if "Traceback (most recent call last)" in se:
        out["crash"] = se[-400:]
        return out
    blocks = split_stdout(so)
    out["order"] = [n for n, _ in blocks]
    try:
        js = json.load(open(os.path.join(d, "j.json")))["files"]
    except Exception:
        js = []
    out["json_order"] = [e.get("file_path") for e in js]
    ju = {}
    try:
        root = ET.parse(os.path.join(d, "j.xml")).getroot()
        out["junit_order"] = [tc.get("name") for tc in root.iter("testcase")]
        for tc in root.iter("testcase"):
            ju[tc.get("name")] = [x.strip() for fl in tc.iter("failure") for x in (fl.text or "").split("\n") if x.strip()]
    except Exception:
        out["junit_order"] = None
    errs = [l for l in se.split("\n") if l.startswith("Error while processing ")]
    for n in names:
        out["files"][n] = {"block": dict(blocks).get(n), "json": next((e for e in js if e.get("file_path") == n), None), "junit": ju.get(n),
                           "err": [l for l in errs if (" " + n + ":") in l], "text": open(os.path.join(d, n)).read()}
    for f in ("j.json", "j.xml"):
        try:
            os.unlink(os.path.join(d, f))
        except OSError:
            pass
    return out


def _case(job):
    k, srcs, cfg_text, tmpdir, seed, tier = job
    import random

    r = random.Random("%s/%d" % (seed, k))
    names = ["f%d.vhd" % i for i in range(len(srcs))]
    texts = [SPECIAL[s] if s in SPECIAL else open(s).read() for s in srcs]
    d = os.path.join(tmpdir, "c%d" % k)
    os.makedirs(d)

    def fresh():
        for n, t in zip(names, texts):
            with open(os.path.join(d, n), "w") as f:
                f.write(t)

    cfg = None
    if cfg_text:
        cfg = "c.yaml"
        open(os.path.join(d, cfg), "w").write(cfg_text)
    # every third batch also loads the repository's example directory of local rules (rules loaded per file)
    lr = os.path.join(vlib.REPO, "tests", "vsg", "local_rules")
    extra = ["--local_rules", lr] if (k % 3 == 2 and os.path.isdir(lr)) else []
    res = {"k": k, "srcs": srcs, "cfg": cfg_text, "problems": [], "runs": 0, "local_rules": bool(extra)}
    try:
        for fix in (False, True):
            alone = {}
            crashed = False
            for n in names:
                fresh()
                o = one_run(d, [n], cfg, 1, fix, extra)
                res["runs"] += 1
                if "crash" in o:
                    crashed = True
                    break
                alone[n] = (o["files"][n], o["rc"])
            if crashed:
                res["crashed"] = True
                continue
            perms = [list(names), list(reversed(names))]
            if len(names) > 2:
                p3 = list(names)
                r.shuffle(p3)
                perms.append(p3)
            jobs_list = [1, 2, 16] if tier == "thorough" else [1, 3]
            for order in perms:
                for jobs in jobs_list:
                    fresh()
                    o = one_run(d, order, cfg, jobs, fix, extra)
                    res["runs"] += 1
                    tag = "%s order %r -p %d" % ("--fix" if fix else "check", order, jobs)
                    if "crash" in o:
                        res["problems"].append(("crash-in-batch", tag + ": vsg crashed in the batch but not alone: " + o["crash"][-200:]))
                        continue
                    exp_order = [n for n in order if alone[n][0]["block"] is not None]
                    if o["order"] != exp_order:
                        res["problems"].append(("output-order", "%s: reports printed in order %r, expected %r" % (tag, o["order"], exp_order)))
                    if o.get("json_order") != order:
                        res["problems"].append(("json-order", "%s: JSON entries in order %r" % (tag, o.get("json_order"))))
                    exp_rc = 1 if any(alone[n][1] for n in order) else 0
                    if o["rc"] != exp_rc:
                        res["problems"].append(("exit-status", "%s: exit status %d, single-file runs give %d" % (tag, o["rc"], exp_rc)))
                    for n in order:
                        a, b = alone[n][0], o["files"][n]
                        for part in ("block", "json", "junit", "err", "text"):
                            if a[part] != b[part]:
                                res["problems"].append(("%s-differs" % part, "%s: %s of %s differs from the single-file run: %r vs %r" % (tag, part, n, str(b[part])[:160], str(a[part])[:160])))
                                break
            # input channel
            if not fix:
                for n, t in zip(names, texts):
                    if alone[n][0]["block"] is None:
                        continue
                    rc, so, se = run_cli(["--stdin"] + (["-c", cfg] if cfg else []) + extra, d, stdin=t)
                    res["runs"] += 1
                    if "Traceback (most recent call last)" in se:
                        continue
                    blk = split_stdout(so)
                    a = alone[n][0]["block"].replace("File:  " + n, "File:  stdin")
                    if not blk or blk[0][1] != a or rc != alone[n][1]:
                        # per-file configuration keyed on the file name legitimately does not apply to stdin
                        if not (cfg_text and n in cfg_text):
                            res["problems"].append(("stdin-differs", "--stdin report of %s differs from the by-name report (exit %d vs %d)" % (n, rc, alone[n][1])))
    finally:
        shutil.rmtree(d, ignore_errors=True)
    return res


def gen_cfg(r, names, ids):
    import yaml

    cfg = {"rule": {r.choice(ids): {"disable": True}}}
    k = r.random()
    if k < 0.5:
        n = r.choice(names)
        cfg["file_rules"] = [{n: {"rule": {r.choice(ids): {"disable": True}, r.choice(ids): {"disable": True}}}}]
    elif k < 0.7:
        n = r.choice(names)
        cfg["file_rules"] = [{n: {"rule": {"global": {"disable": True}}}}]
    return yaml.safe_dump(cfg)


def run(tier):
    import ruletable

    ck = vlib.Check("C15", tier, "exploration")
    br = vlib.build()
    names, discharged, assumptions, broken = vlib.theorem_status("C15", br)
    ck.theorems(br, names, discharged, assumptions, broken)
    for b in broken:
        ck.broken_tie(b[:80], b)
    r = vlib.rng("c15")
    pool = [f for f in corpus.files() if ("/rule_doc/" in f or "/styles/" in f or "test_input.vhd" in f) and 300 < os.path.getsize(f) < 4000]
    ncases = 24 if tier == "thorough" else 8
    tmp = tempfile.mkdtemp(prefix="c15_", dir=vlib.BUILD)
    jobs = []
    for k in range(ncases):
        srcs = r.sample(pool, r.randint(2, 4))
        if r.random() < 0.4:
            srcs.insert(r.randint(0, len(srcs) - 1), "BAD")
        hostile = sorted(x for x in SPECIAL if x != "BAD")
        srcs.insert(r.randint(0, len(srcs) - 1), hostile[k % len(hostile)])  # every kind of open end state in every tier
        cfg = None
        if k % 2:
            # rule ids that report on these very files, so that an override is visible
            cfg = "PENDING"
        jobs.append([k, srcs, cfg, tmp, vlib.seed(), tier])
    # pick rule ids that fire on the batch (one cheap pre-run per batch)
    pre = tempfile.mkdtemp(prefix="c15p_", dir=vlib.BUILD)
    try:
        for j in jobs:
            if j[2] == "PENDING":
                ids = set()
                for i, s in enumerate(x for x in j[1] if x not in SPECIAL):
                    shutil.copy(s, os.path.join(pre, "p.vhd"))
                    run_cli(["-f", "p.vhd", "-ap", "--json", "p.json", "-p", "1"], pre)
                    try:
                        ids |= {v["rule"] for fe in json.load(open(os.path.join(pre, "p.json")))["files"] for v in fe["violations"]}
                    except Exception:
                        pass
                j[2] = gen_cfg(r, ["f%d.vhd" % i for i in range(len(j[1]))], sorted(ids) or ["entity_001"])
    finally:
        shutil.rmtree(pre, ignore_errors=True)
    try:
        with Pool(vlib.NCPU) as p:
            res = p.map(_case, [tuple(j) for j in jobs], chunksize=1)
    finally:
        shutil.rmtree(tmp, ignore_errors=True)
    runs = 0
    for o in res:
        runs += o["runs"]
        for key, what in o["problems"][:2]:
            ck.violation("independence:" + key, "batch %r config %r: %s" % ([s if s in SPECIAL else os.path.relpath(s, vlib.REPO) for s in o["srcs"]], o["cfg"], what),
                         {"kind": "input", "files": [s if s in SPECIAL else os.path.relpath(s, vlib.REPO) for s in o["srcs"]], "config": o["cfg"], "problem": what})
    ck.cov.update({"batches": len(jobs), "cli_runs": runs, "batches_with_rejected_file": len([j for j in jobs if "BAD" in j[1]]), "open_end_state_neighbours": sorted({x for j in jobs for x in j[1] if x in SPECIAL and x != "BAD"}), "batches_with_local_rules": len([o for o in res if o.get("local_rules")]), "batches_with_per_file_configuration": len([j for j in jobs if j[2] and "file_rules" in j[2]]),
                   "batches_skipped_because_vsg_crashed": len([o for o in res if o.get("crashed")])})
    ck.sample({"batch": [s if s in SPECIAL else os.path.relpath(s, vlib.REPO) for s in res[0]["srcs"]], "config": res[0]["cfg"], "runs": res[0]["runs"]})
    ck.cov["evaluations"] = runs
    ck.cov["distinct_nontrivial"] = len(jobs)
    ck.cov["rule"] = "batch of 2-4 corpus files (+ rejected file, + a neighbour that ends inside an open vhdl_comp_off / translate_off region, delimited comment or vsg_off region) x {no config, rule section + per-file file_rules override} x {check, --fix} x {orders: given, reversed, shuffled} x -p {1,3} ({1,2,16} thorough) compared part by part (report block, JSON entry, JUnit case, error line, fixed text, exit contribution) with single-file -p 1 runs; --stdin vs by name"
    ck.assumptions = ["scheduler theorem assumes apply_rules is a pure function of the file; this check is the exploration of that purity", "per-file configuration keyed on the file name does not apply to --stdin by design"]
    return ck.finish()


def replay(rp):
    print(json.dumps(rp, indent=1))
    return 0
