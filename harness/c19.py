# C19: every accepted file can be checked and fixed without a crash or a hang
import os, json, tempfile, shutil, subprocess
from multiprocessing import Pool
import vlib, tracechecks as T, corpus


def evaluate(ck, data, rules, docg):
    n = crashed = 0
    for o in T.runs(data):
        n += 1
        if o["status"] == "hang" or "VsgHang" in str(o.get("exception", "")):
            crashed += 1
            ck.violation("hang:fix-run", "%s: the observed run did not finish within the per-run time limit (%s)" % (T.tag(o), o.get("status")), T.rep(o, oracle="hang"))
        elif o["status"].startswith("crash") or o["status"] == "harness-error":
            crashed += 1
            exc = o.get("exception", "?")
            site = exc.split(" @ ")[-1].split(" <- ")[0] if " @ " in exc else "?"
            ck.violation("crash:%s:%s:%s" % (o.get("crash_rule") or o["status"], exc.split(":")[0], site), "%s: %s while %s: %s" % (T.tag(o), o["status"], o.get("crash_rule") or "processing", exc), T.rep(o, oracle="crash", exception=exc))
    ck.sample({"runs": n, "crashed": crashed})
    return {"fix_runs": n, "crashed": crashed}


MALFORMED = [lambda t, r: t[: r.randint(1, max(1, len(t) - 1))], lambda t, r: t.replace(";", "", 1), lambda t, r: t.replace(" is", "", 1), lambda t, r: t.replace("end", "edn", 1),
             lambda t, r: t.replace("(", "", 1), lambda t, r: t + "\nentity", lambda t, r: t.replace("begin", "", 1)]


def _cli(job):
    f, args = job
    try:
        p = subprocess.run(vlib.vsg_cmd() + ["-f", f] + args, env=vlib.repo_env(), stdout=subprocess.PIPE, stderr=subprocess.PIPE, text=True, timeout=600)
        se = p.stderr
        if "Traceback (most recent call last)" in se and len(se) > 3000:
            se = "Traceback (most recent call last) [...]\n" + se[-2500:]
        return f, p.returncode, p.stdout[-400:], se, False
    except subprocess.TimeoutExpired:
        return f, None, "", "", True


def extra(ck, data, rules, docg):
    """the rejection half: malformed variants are either accepted or rejected with one located message, exit 1,
    and the next file is still processed; a watchdog bounds every run"""
    r = vlib.rng("c19")
    n = 60 if ck.tier == "thorough" else 16
    srcs = corpus.sample(n, "c19", [f for f in corpus.files() if "test_input.vhd" in f and os.path.getsize(f) < 5000])
    tmp = tempfile.mkdtemp(prefix="c19_", dir=vlib.BUILD)
    jobs = []
    try:
        good = os.path.join(tmp, "good.vhd")
        open(good, "w").write("entity e is\nend entity e;\n")
        for i, s in enumerate(srcs):
            t = open(s).read()
            f = os.path.join(tmp, "m%d.vhd" % i)
            open(f, "w").write(r.choice(MALFORMED)(t, r))
            jobs.append((f, ["-p", "1"]))
        with Pool(vlib.NCPU) as p:
            res = p.map(_cli, jobs)
        rejected = 0
        for (f, rc, so, se, hung), s in zip(res, srcs):
            rel = os.path.relpath(s, vlib.REPO)
            if hung:
                ck.violation("hang:malformed", "a malformed variant of %s did not terminate within 600 s" % rel, {"kind": "input", "file": rel, "text": open(f).read()})
            elif "Traceback (most recent call last)" in se:
                last = [l for l in se.strip().split("\n") if l.strip()][-1]
                site = [l.strip() for l in se.split("\n") if l.strip().startswith("File ")][-1:]
                key = "traceback:malformed:%s:%s" % (last.split(":")[0], (site[0].split(",")[0].split("/")[-1].rstrip('"') + ":" + site[0].split("line ")[1].split(",")[0]) if site else "?")
                ck.violation(key, "a malformed variant of %s ends in a traceback instead of a syntax message: %s" % (rel, last[:200]), {"kind": "input", "file": rel, "text": open(f).read()})
            elif rc == 1 and "Error while processing" in se:
                rejected += 1
                if len([l for l in se.strip().split("\n") if l.startswith("Error while processing")]) != 1:
                    ck.violation("rejection-message", "rejected variant of %s: not exactly one located message" % rel, {"kind": "input", "file": rel, "text": open(f).read()})
        # a rejected file does not stop the batch
        bad = next((f for (f, rc, so, se, hung) in res if rc == 1 and "Error while processing" in se), None)
        if bad:
            p = subprocess.run(vlib.vsg_cmd() + ["-f", bad, good, "-p", "1"], env=vlib.repo_env(), stdout=subprocess.PIPE, stderr=subprocess.PIPE, text=True, timeout=600)
            if p.returncode != 1 or "File:  " + good not in p.stdout:
                ck.violation("rejected-file-stops-batch", "after a rejected file the next file was not processed (exit %d)" % p.returncode, {"kind": "input", "text": open(bad).read()})
        ck.cov["malformed"] = {"variants": len(jobs), "rejected_with_message": rejected}
        # option combinations of the command line and configuration sections that the fixtures never combine:
        # every --fix_phase (the check that follows starts from a partly fixed model), --stdin with --fix,
        # a configuration error with --junit, partial pragma pattern sections
        tabby = [f for f in corpus.files() if "test_input.vhd" in f and os.path.getsize(f) < 6000]
        import re as _re

        def tab_rank(f):
            t = open(f, errors="replace").read()
            return (0 if _re.search(r"(?m)^--[^\n]*\t", t) else 1 if _re.search(r"--[^\n]*\t", t) else 2 if "\t" in t else 3, f)

        tabby = sorted(tabby, key=tab_rank)
        pick = tabby[:8] + r.sample(tabby[8:], 10 if ck.tier == "thorough" else 4)
        jobs2 = []
        for i, s in enumerate(pick):
            for fp in (1, 2, 3, 4, 5, 6):
                f = os.path.join(tmp, "p%d_%d.vhd" % (i, fp))
                shutil.copy(s, f)
                jobs2.append((f, ["--fix", "-fp", str(fp), "-p", "1"]))
        cfg_bad = os.path.join(tmp, "bad.yaml")
        open(cfg_bad, "w").write("rule:\n  no_such_rule_001:\n    disable: true\n")
        cfg_pr = os.path.join(tmp, "pr.yaml")
        open(cfg_pr, "w").write("pragma:\n  patterns:\n    single:\n      - '^\\s*--\\s+foo\\s*$'\n")
        g2 = os.path.join(tmp, "good2.vhd")
        open(g2, "w").write("-- a comment line\nentity e is\nend entity e;\n")
        jobs2.append((good, ["-c", cfg_bad, "--junit", os.path.join(tmp, "j.xml"), "-p", "1"]))
        jobs2.append((g2, ["-c", cfg_pr, "-p", "1"]))
        with Pool(vlib.NCPU) as p:
            res2 = p.map(_cli, jobs2)
        for (f, rc, so, se, hung), (_, args) in zip(res2, jobs2):
            if hung:
                ck.violation("hang:cli-options", "vsg %s did not terminate within 600 s" % " ".join(args[:3]), {"kind": "input", "args": args[:4], "text": open(f).read()})
            elif "Traceback (most recent call last)" in se:
                last = [l for l in se.strip().split("\n") if l.strip()][-1]
                site = [l.strip() for l in se.split("\n") if l.strip().startswith("File ")][-1:]
                where = (site[0].split(",")[0].split("/")[-1].rstrip('"') + ":" + site[0].split("line ")[1].split(",")[0]) if site else "?"
                ck.violation("traceback:cli-options:%s:%s" % (last.split(":")[0], where), "vsg %s ends in a traceback: %s" % (" ".join(a if not a.startswith(tmp) else os.path.basename(a) for a in args), last[:200]), {"kind": "input", "args": [a if not a.startswith(tmp) else os.path.basename(a) for a in args], "text": open(f).read()})
        p = subprocess.run(vlib.vsg_cmd() + ["--stdin", "--fix"], input="entity E is\nend entity E;\n", env=vlib.repo_env(), stdout=subprocess.PIPE, stderr=subprocess.PIPE, text=True, timeout=600)
        if "Traceback (most recent call last)" in p.stderr:
            ck.violation("traceback:stdin-fix", "vsg --stdin --fix ends in a traceback: %s" % p.stderr.strip().split("\n")[-1][:200], {"kind": "input", "args": ["--stdin", "--fix"]})
        ck.cov["cli_option_runs"] = len(jobs2) + 1
        # lexically awkward lines (odd numbers of quotes, quote characters as character literals, lone backslashes,
        # ticks) as a comment and as a statement: accepted or rejected with a message, never a traceback
        lex = json.load(open(os.path.join(vlib.VERIF, "harness", "c19_lex.json")))
        jobs3 = []
        for i, l in enumerate(lex["comments"]):
            f = os.path.join(tmp, "x%d.vhd" % i)
            open(f, "w").write("entity e is\nend entity e;\n-- %s\narchitecture a of e is\nbegin\n  -- %s\n  y <= z; -- %s\nend architecture a;\n" % (l, l, l))
            jobs3.append((f, ["--fix", "-p", "1"], l))
        for i, l in enumerate(lex["statements"]):
            f = os.path.join(tmp, "y%d.vhd" % i)
            open(f, "w").write("architecture a of e is\nbegin\n  p : process is\n  begin\n    %s\n  end process p;\nend architecture a;\n" % l)
            jobs3.append((f, ["--fix", "-p", "1"], l))
        for i, l in enumerate(lex["first_line_errors"]):
            f = os.path.join(tmp, "z%d.vhd" % i)
            open(f, "w").write(l + "\n")
            jobs3.append((f, ["-p", "1"], l))
        texts3 = {f: (open(f).read(), l) for f, _, l in jobs3}
        with Pool(vlib.NCPU) as p:
            res3 = p.map(_cli, [(f, a) for f, a, _ in jobs3])
        for (f, rc, so, se, hung) in res3:
            if hung:
                ck.violation("hang:lexical", "a file with the line %r did not terminate within 600 s" % texts3[f][1], {"kind": "input", "text": texts3[f][0]})
            elif "Traceback (most recent call last)" in se:
                last = [l for l in se.strip().split("\n") if l.strip()][-1]
                site = [l.strip() for l in se.split("\n") if l.strip().startswith("File ")][-1:]
                where = (site[0].split(",")[0].split("/")[-1].rstrip('"') + ":" + site[0].split("line ")[1].split(",")[0]) if site else "?"
                ck.violation("traceback:lexical:%s:%s" % (last.split(":")[0], where), "vsg --fix on a file with the line %r ends in a traceback: %s" % (texts3[f][1], last[:200]), {"kind": "input", "text": texts3[f][0]})
        ck.cov["lexically_awkward_files"] = len(jobs3)
    finally:
        shutil.rmtree(tmp, ignore_errors=True)


def run(tier):
    return T.run_prop("C19", tier, "exploration", evaluate,
                      "every observed fix run of the shared trace (every enabled rule analysed and fixed on every selected corpus file under default / jcl / indent_only) must end without an exception other than ClassifyError / ConfigurationError; malformed variants (truncation, dropped ';', 'is', '(', 'begin', misspelt 'end') through the CLI under a 600 s watchdog: accepted, or one located message, exit 1, next file processed",
                      ["totality of ~960 Python rules and the classifier cannot be proved here; proved components: create_total (tokenizer loops), read_total, structural recursion of every modelled loop; this check is exploration"], extra=extra)


def replay(rp):
    return T.replay(rp)
