# C19: every accepted file can be checked and fixed without a crash or a hang
import os, json, tempfile, shutil, subprocess
from multiprocessing import Pool
import vlib, tracechecks as T, corpus


def evaluate(ck, data, rules, docg):
    n = crashed = 0
    for o in T.runs(data):
        n += 1
        if o["status"].startswith("crash") or o["status"] == "harness-error":
            crashed += 1
            exc = o.get("exception", "?")
            site = exc.split(" @ ")[-1].split(" <- ")[0] if " @ " in exc else "?"
            ck.violation("crash:%s:%s:%s" % (o.get("crash_rule") or o["status"], exc.split(":")[0], site), "%s: %s while %s: %s" % (T.tag(o), o["status"], o.get("crash_rule") or "processing", exc), T.rep(o, oracle="crash", exception=exc))
    ck.sample({"runs": n, "crashed": crashed})
    return {"fix_runs": n, "crashed": crashed}


MALFORMED = [lambda t, r: t[: r.randint(1, max(1, len(t) - 1))], lambda t, r: t.replace(";", "", 1), lambda t, r: t.replace(" is", "", 1), lambda t, r: t.replace("end", "edn", 1),
             lambda t, r: t.replace("(", "", 1), lambda t, r: t + "\nentity", lambda t, r: t.replace("begin", "", 1)]


def _cli(job):
    f, args = job
    try:
        p = subprocess.run(vlib.vsg_cmd() + ["-f", f] + args, env=vlib.repo_env(), stdout=subprocess.PIPE, stderr=subprocess.PIPE, text=True, timeout=600)
        return f, p.returncode, p.stdout[-400:], p.stderr[-1500:], False
    except subprocess.TimeoutExpired:
        return f, None, "", "", True


def extra(ck, data, rules, docg):
    """the rejection half: malformed variants are either accepted or rejected with one located message, exit 1,
    and the next file is still processed; a watchdog bounds every run"""
    r = vlib.rng("c19")
    n = 60 if ck.tier == "thorough" else 16
    srcs = corpus.sample(n, "c19", [f for f in corpus.files() if "test_input.vhd" in f and os.path.getsize(f) < 5000])
    tmp = tempfile.mkdtemp(prefix="c19_", dir=vlib.BUILD)
    jobs = []
    try:
        good = os.path.join(tmp, "good.vhd")
        open(good, "w").write("entity e is\nend entity e;\n")
        for i, s in enumerate(srcs):
            t = open(s).read()
            f = os.path.join(tmp, "m%d.vhd" % i)
            open(f, "w").write(r.choice(MALFORMED)(t, r))
            jobs.append((f, ["-p", "1"]))
        with Pool(vlib.NCPU) as p:
            res = p.map(_cli, jobs)
        rejected = 0
        for (f, rc, so, se, hung), s in zip(res, srcs):
            rel = os.path.relpath(s, vlib.REPO)
            if hung:
                ck.violation("hang:malformed", "a malformed variant of %s did not terminate within 600 s" % rel, {"kind": "input", "file": rel, "text": open(f).read()})
            elif "Traceback (most recent call last)" in se:
                last = [l for l in se.strip().split("\n") if l.strip()][-1]
                site = [l.strip() for l in se.split("\n") if l.strip().startswith("File ")][-1:]
                key = "traceback:malformed:%s:%s" % (last.split(":")[0], (site[0].split(",")[0].split("/")[-1].rstrip('"') + ":" + site[0].split("line ")[1].split(",")[0]) if site else "?")
                ck.violation(key, "a malformed variant of %s ends in a traceback instead of a syntax message: %s" % (rel, last[:200]), {"kind": "input", "file": rel, "text": open(f).read()})
            elif rc == 1 and "Error while processing" in se:
                rejected += 1
                if len([l for l in se.strip().split("\n") if l.startswith("Error while processing")]) != 1:
                    ck.violation("rejection-message", "rejected variant of %s: not exactly one located message" % rel, {"kind": "input", "file": rel, "text": open(f).read()})
        # a rejected file does not stop the batch
        bad = next((f for (f, rc, so, se, hung) in res if rc == 1 and "Error while processing" in se), None)
        if bad:
            p = subprocess.run(vlib.vsg_cmd() + ["-f", bad, good, "-p", "1"], env=vlib.repo_env(), stdout=subprocess.PIPE, stderr=subprocess.PIPE, text=True, timeout=600)
            if p.returncode != 1 or "File:  " + good not in p.stdout:
                ck.violation("rejected-file-stops-batch", "after a rejected file the next file was not processed (exit %d)" % p.returncode, {"kind": "input", "text": open(bad).read()})
        ck.cov["malformed"] = {"variants": len(jobs), "rejected_with_message": rejected}
    finally:
        shutil.rmtree(tmp, ignore_errors=True)


def run(tier):
    return T.run_prop("C19", tier, "exploration", evaluate,
                      "every observed fix run of the shared trace (every enabled rule analysed and fixed on every selected corpus file under default / jcl / indent_only) must end without an exception other than ClassifyError / ConfigurationError; malformed variants (truncation, dropped ';', 'is', '(', 'begin', misspelt 'end') through the CLI under a 600 s watchdog: accepted, or one located message, exit 1, next file processed",
                      ["totality of ~960 Python rules and the classifier cannot be proved here; proved components: create_total (tokenizer loops), read_total, structural recursion of every modelled loop; this check is exploration"], extra=extra)


def replay(rp):
    print(json.dumps(rp, indent=1)[:3000])
    return 0
