# Shared plumbing for every check: build (Coq + extraction + OCaml driver), theorem status,
# model runner, evidence / replay / known-findings handling, the VIOLATION protocol.
import os, sys, json, time, subprocess, fcntl, hashlib, re, random, shutil

VERIF = os.path.dirname(os.path.dirname(os.path.abspath(__file__)))
REPO = os.environ.get("VSG_REPO", "/repo")
PY = "/venv/bin/python"
COQ = os.path.join(VERIF, "coq")
BUILD = os.path.join(VERIF, "build")
GEN = os.path.join(COQ, "gen")
NCPU = os.cpu_count() or 4


def seed():
    try:
        return int(os.environ.get("VERIF_SEED", "0"))
    except ValueError:
        return 0


def rng(tag=""):
    return random.Random("%d/%s" % (seed(), tag))


def repo_env(extra=None):
    env = dict(os.environ)
    env["PYTHONPATH"] = REPO
    env["PYTHONHASHSEED"] = "0"
    env["PYTHONWARNINGS"] = "ignore"
    if extra:
        env.update(extra)
    return env


def vsg_cmd():
    """the command line tool of the tree under test (python -m vsg does nothing: __main__ has no guard)"""
    return [PY, "-W", "ignore", os.path.join(REPO, "bin", "vsg")]


def sh(cmd, timeout=None, cwd=None, env=None, inp=None):
    p = subprocess.run(cmd, cwd=cwd, env=env, input=inp, text=True, stdout=subprocess.PIPE, stderr=subprocess.STDOUT, timeout=timeout, shell=isinstance(cmd, str))
    return p.returncode, p.stdout


def tree_hash(paths=("vsg", "docs")):
    """hash of the working-tree content of /repo (tracked + modified files under the given dirs)"""
    h = hashlib.sha256()
    for top in paths:
        for d, dirs, files in sorted(os.walk(os.path.join(REPO, top))):
            dirs.sort()
            if "__pycache__" in d:
                continue
            for f in sorted(files):
                if f.endswith((".pyc",)):
                    continue
                p = os.path.join(d, f)
                h.update(p.encode())
                try:
                    with open(p, "rb") as fh:
                        h.update(fh.read())
                except OSError:
                    pass
    return h.hexdigest()[:16]


# --------------------------------------------------------------------------- build


class Lock:
    def __init__(self, name):
        os.makedirs(BUILD, exist_ok=True)
        self.path = os.path.join(BUILD, name)

    def __enter__(self):
        self.f = open(self.path, "w")
        fcntl.flock(self.f, fcntl.LOCK_EX)
        return self

    def __exit__(self, *a):
        fcntl.flock(self.f, fcntl.LOCK_UN)
        self.f.close()


def write_if_changed(path, text):
    try:
        if open(path).read() == text:
            return False
    except OSError:
        pass
    os.makedirs(os.path.dirname(path), exist_ok=True)
    with open(path, "w") as f:
        f.write(text)
    return True


class BuildResult:
    def __init__(self):
        self.translator_errors = {}  # gen file -> message
        self.make_rc = None
        self.make_log = ""
        self.failed = []  # .v files that did not compile
        self.ocaml_ok = False
        self.ocaml_log = ""
        self.wall = 0.0

    def vo_ok(self, vfile):
        return vfile not in self.failed and os.path.exists(os.path.join(COQ, vfile[:-2] + ".vo"))


def coq_files():
    out = []
    for l in open(os.path.join(COQ, "_CoqProject")):
        l = l.strip()
        if l.endswith(".v"):
            out.append(l)
    return out


def build(verbose=False):
    """Regenerate gen/*.v from REPO, (re)build every .vo with make -k, re-extract and build the OCaml driver.
    Incremental: untouched files are not recompiled. Serialised by a lock."""
    import translate

    t0 = time.time()
    r = BuildResult()
    with Lock(".build.lock"):
        os.makedirs(GEN, exist_ok=True)
        for name, fn in translate.TRANSLATORS.items():
            path = os.path.join(GEN, name)
            try:
                write_if_changed(path, fn(REPO))
            except Exception as e:  # fail closed: the tie is broken, the stale table is removed
                r.translator_errors[name] = "%s: %s" % (type(e).__name__, e)
                write_if_changed(path, "(* translator failed: %s *)\nDefinition translator_failed : False := I.\n" % str(e).replace("*", "x"))
        mk = os.path.join(COQ, "Makefile")
        cp = os.path.join(COQ, "_CoqProject")
        if not os.path.exists(mk) or os.path.getmtime(mk) < os.path.getmtime(cp):
            rc, out = sh(["coq_makefile", "-f", "_CoqProject", "-o", "Makefile"], cwd=COQ, timeout=120)
            if rc != 0:
                r.make_rc, r.make_log = rc, out
                return r
        rc, out = sh(["timeout", "2400", "make", "-k", "-j%d" % NCPU], cwd=COQ, timeout=2500)
        r.make_rc, r.make_log = rc, out
        with open(os.path.join(BUILD, "make.log"), "w") as f:
            f.write(out)
        if rc != 0:
            for v in coq_files():
                vo = os.path.join(COQ, v[:-2] + ".vo")
                if not os.path.exists(vo) or os.path.getmtime(vo) < os.path.getmtime(os.path.join(COQ, v)):
                    r.failed.append(v)
            # files whose dependencies failed are reported too
            for m in re.finditer(r"File \"\./([^\"]+\.v)\", line", out):
                if m.group(1) not in r.failed:
                    r.failed.append(m.group(1))
        # OCaml driver
        model = os.path.join(COQ, "model.ml")
        exe = os.path.join(BUILD, "vsgmodel")
        drv = os.path.join(VERIF, "ocaml", "driver.ml")
        if os.path.exists(model):
            need = not os.path.exists(exe) or os.path.getmtime(exe) < max(os.path.getmtime(model), os.path.getmtime(drv))
            if need:
                od = os.path.join(BUILD, "ocaml")
                shutil.rmtree(od, ignore_errors=True)
                os.makedirs(od)
                for f in ("model.ml", "model.mli"):
                    shutil.copy(os.path.join(COQ, f), od)
                shutil.copy(drv, od)
                rc2, out2 = sh(["ocamlfind", "ocamlopt", "-O3", "-package", "str", "-linkpkg", "-w", "-a", "model.mli", "model.ml", "driver.ml", "-o", exe + ".new"], cwd=od, timeout=600)
                if rc2 != 0:
                    rc2, out2 = sh(["ocamlfind", "ocamlopt", "-package", "str", "-linkpkg", "-w", "-a", "model.mli", "model.ml", "driver.ml", "-o", exe + ".new"], cwd=od, timeout=600)
                r.ocaml_log = out2
                if rc2 == 0:
                    os.replace(exe + ".new", exe)
            r.ocaml_ok = os.path.exists(exe) and os.path.getmtime(exe) >= os.path.getmtime(model)
    r.wall = time.time() - t0
    return r


def theorem_status(pid, br):
    """(names, discharged_names, assumptions_text, broken list) for props/<pid>.v"""
    v = "props/%s.v" % pid
    src = open(os.path.join(COQ, v)).read()
    names = re.findall(r"^\s*(?:Theorem|Example|Lemma)\s+([A-Za-z0-9_']+)", src, re.M)
    broken = []
    assumptions = ""
    if not br.vo_ok(v):
        broken.append("coq:%s does not compile (or a file it depends on)" % v)
        discharged = []
    else:
        tmp = os.path.join(BUILD, "pa_%s_%d" % (pid, os.getpid()))
        os.makedirs(tmp, exist_ok=True)
        rc, out = sh(["timeout", "600", "coqc", "-R", ".", "VSG", "-o", os.path.join(tmp, "%s.vo" % pid), v], cwd=COQ)
        shutil.rmtree(tmp, ignore_errors=True)
        for f in (".%s.aux" % pid,):
            pass
        if rc != 0:
            broken.append("coq:%s failed on re-check: %s" % (v, out[-400:]))
            discharged = []
        else:
            discharged = names
            assumptions = out.strip()
    for k, m in br.translator_errors.items():
        broken.append("translator:%s: %s" % (k, m))
    return names, discharged, assumptions, broken


def closed_count(assumptions):
    return assumptions.count("Closed under the global context")


def axioms_listed(assumptions):
    ax = []
    for blk in assumptions.split("Axioms:")[1:]:
        for l in blk.splitlines():
            m = re.match(r"^([A-Za-z0-9_.']+)\s*:", l)
            if m:
                ax.append(m.group(1))
    return sorted(set(ax))


def run_model(mode, lines, timeout=3600):
    """pipe one case per line into the extracted model, get one result per line"""
    exe = os.path.join(BUILD, "vsgmodel")
    inp = "\n".join(lines) + "\n"
    p = subprocess.run([exe, mode], input=inp, text=True, stdout=subprocess.PIPE, stderr=subprocess.PIPE, timeout=timeout)
    if p.returncode != 0:
        raise RuntimeError("model driver failed: " + p.stderr[-500:])
    out = p.stdout.split("\n")
    if out and out[-1] == "":
        out.pop()
    return out


def coq_check_cases(name, preamble, statement_lines, timeout=900):
    """compile a generated file whose Examples must hold by vm_compute (cross-check of extraction + driver)"""
    d = os.path.join(COQ, "cases")
    os.makedirs(d, exist_ok=True)
    path = os.path.join(d, "%s_%d.v" % (name, os.getpid()))
    with open(path, "w") as f:
        f.write(preamble + "\n" + "\n".join(statement_lines) + "\n")
    rc, out = sh(["timeout", str(timeout), "coqc", "-R", ".", "VSG", os.path.relpath(path, COQ)], cwd=COQ)
    for ext in (".v", ".vo", ".vok", ".vos", ".glob"):
        try:
            os.unlink(path[:-2] + ext)
        except OSError:
            pass
    try:
        os.unlink(os.path.join(d, "." + os.path.basename(path)[:-2] + ".aux"))
    except OSError:
        pass
    return rc == 0, out


# --------------------------------------------------------------------------- results


def load_known():
    try:
        return json.load(open(os.path.join(VERIF, "known_findings.json")))
    except OSError:
        return {"findings": [], "fixed": []}


class WorkerHang(BaseException):
    pass


def alarm(seconds):
    """per-job watchdog for in-process workers (0 cancels): a run that does not terminate raises WorkerHang"""
    import signal

    def on_alarm(sig, frm):
        raise WorkerHang("no result within %d s" % seconds)

    if seconds:
        signal.signal(signal.SIGALRM, on_alarm)
    signal.alarm(seconds)


class Check:
    def __init__(self, pid, tier, level):
        self.pid, self.tier, self.level = pid, tier, level
        self.t0 = time.time()
        self.viol = []  # (key, what, replay dict, no_input)
        self.known_hits = {}
        self.cov = {"samples": []}
        self.assumptions = []
        self.known = [k for k in load_known().get("findings", []) if k["property"] == pid]
        self.notes = []

    def sample(self, x, limit=6):
        if len(self.cov["samples"]) < limit:
            self.cov["samples"].append(x)

    def violation(self, key, what, replay=None, no_input=False):
        """key identifies call site + failure signature; known findings are matched on it (regex allowed)"""
        if os.environ.get("VERIF_DUMP_KEYS"):  # maintainer saturation runs: every violation call, known or not (see mkknown.py)
            with open(os.environ["VERIF_DUMP_KEYS"], "a") as f:
                f.write(json.dumps({"property": self.pid, "key": key, "what": what[:400]}) + "\n")
        for k in self.known:
            if re.fullmatch(k["key"], key):
                self.known_hits.setdefault(k["key"], [k, 0])[1] += 1
                return False
        if any(v[0] == key for v in self.viol):
            return True
        self.viol.append((key, what, replay or {}, no_input))
        return True

    def broken_tie(self, name, detail):
        """a theorem / correspondence no longer checks and no failing input was found"""
        self.violation("tie:" + name, "no longer checks: %s" % detail, {"kind": "tie", "broken": name, "detail": detail}, no_input=True)

    def theorems(self, br, names, discharged, assumptions, broken):
        self.cov["obligations"] = len(names)
        self.cov["discharged"] = len(discharged)
        self.cov["theorems"] = names
        self.cov["checker_cmd"] = "cd /verif/coq && coq_makefile -f _CoqProject -o Makefile && make -k && coqc -R . VSG props/%s.v" % self.pid
        self.cov["print_assumptions"] = assumptions[-3000:]
        self.cov["closed_theorems"] = closed_count(assumptions)
        self.cov["axioms"] = axioms_listed(assumptions)
        self.cov.setdefault("trusted_base", TRUSTED_BASE + (["axioms: " + ", ".join(self.cov["axioms"])] if self.cov["axioms"] else ["axioms: none (every property theorem is Closed under the global context)"]))

    def finish(self):
        os.makedirs(os.path.join(VERIF, "evidence"), exist_ok=True)
        rd = os.path.join(VERIF, "replays", self.pid)
        for key, (k, n) in sorted(self.known_hits.items()):
            print("KNOWN-FINDING: property=%s %s (%d occurrence(s) this run)" % (self.pid, k["what"], n))
        out_lines = []
        if any(not v[3] for v in self.viol):
            # a concrete failing input was found: the broken ties that led to it are recorded, not reported separately
            self.notes += ["broken tie (subsumed by a failing input): %s: %s" % (v[0], v[1][:300]) for v in self.viol if v[3]]
            self.viol = [v for v in self.viol if not v[3]]
        for key, what, replay, no_input in self.viol:
            os.makedirs(rd, exist_ok=True)
            h = hashlib.sha1(key.encode()).hexdigest()[:12]
            path = os.path.join(rd, "%s.json" % h)
            replay = dict(replay)
            replay.update({"property": self.pid, "key": key, "what": what, "tier": self.tier, "seed": seed()})
            with open(path, "w") as f:
                json.dump(replay, f, indent=1, default=str)
            out_lines.append("VIOLATION property=%s replay=%s%s" % (self.pid, path, " no-failing-input-found" if no_input else ""))
            print("  what: " + what[:600])
        ev = {
            "property_id": self.pid,
            "tier": self.tier,
            "seed": seed(),
            "level": self.level,
            "coverage": self.cov,
            "assumptions": self.assumptions,
            "wall_s": round(time.time() - self.t0, 2),
            "violations": len(self.viol),
            "known_findings_seen": [k for k in self.known_hits],
            "repo_tree": tree_hash(("vsg",)),
            "notes": self.notes,
        }
        with open(os.path.join(VERIF, "evidence", "%s.json" % self.pid), "w") as f:
            json.dump(ev, f, indent=1, default=str)
        for l in out_lines:
            print(l)
        sys.stdout.flush()
        return 1 if self.viol else 0


TRUSTED_BASE = [
    "Coq 8.16.1 kernel (coqc; vm_compute used, native_compute not used)",
    "extraction: ExtrOcamlBasic only (Extract Inductive bool, option, unit, list, prod, sumbool, comparison); no Extract Constant",
    "OCaml 4.13.1 + /verif/ocaml/driver.ml (wire encoding)",
    "Python harness: translators, token abstraction, observers",
]
