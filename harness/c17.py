# C17: the emitted configuration reproduces the run
import os, re, json, shutil, tempfile, subprocess
from multiprocessing import Pool
import vlib, corpus


def cli(args, cwd):
    p = subprocess.run(vlib.vsg_cmd() + args, cwd=cwd, env=vlib.repo_env(), stdout=subprocess.PIPE, stderr=subprocess.PIPE, text=True, timeout=1800)
    return p.returncode, p.stdout, p.stderr


def gen_stack(r, ids, groups, k, opts=()):
    import yaml

    if k == 0:
        return []
    files = []
    focus = []
    for i in range(r.randint(1, 2)):
        rule = {}
        for _ in range(r.randint(1, 6)):
            rid = r.choice(ids)
            what = r.choice(["disable", "fixable", "phase", "indent_size", "severity"])
            rule.setdefault(rid, {})[what] = {"disable": r.random() < 0.5, "fixable": r.random() < 0.5, "phase": r.randint(1, 7), "indent_size": r.choice([2, 3, 4]), "severity": r.choice(["Error", "Warning"])}[what]
        if r.random() < 0.5:
            rule.setdefault("group", {})[r.choice(groups)] = {r.choice(["disable", "severity"]): None}
            g = list(rule["group"])[0]
            key = list(rule["group"][g])[0]
            rule["group"][g][key] = True if key == "disable" else "Warning"
        if r.random() < 0.3:
            rule["global"] = {"indent_size": r.choice([2, 4])}
        cfg = {"rule": rule}
        extra = r.random()
        if extra < 0.2:
            cfg["severity"] = {"Guideline": {"type": "warning"}}
            cfg["rule"].setdefault(r.choice(ids), {})["severity"] = "Guideline"
        elif extra < 0.3:
            cfg["skip_phase"] = [r.randint(2, 7)]
        elif extra < 0.7 and opts:
            # a rule switched off with non-default options in the rule section and switched on again for one file
            rid, o = r.choice(opts)
            cfg["rule"][rid] = dict(o, disable=True)
            # the per-file key is matched against the name given on the command line: also spellings that are not
            # in normalised form (the same spelling is used for -f)
            cfg["file_rules"] = [{r.choice(["f0.vhd", "./f0.vhd", "x/../f0.vhd", "f0.vhd"]): {"rule": {rid: {"disable": False}}}}]
            cfg["__focus__"] = rid
        focus.append(cfg.pop("__focus__", None))
        files.append(yaml.safe_dump(cfg))
    return files


def _case(job):
    k, style, stack, srcs, tmpdir = job
    d = os.path.join(tmpdir, "c%d" % k)
    os.makedirs(d)
    res = {"k": k, "style": style, "stack": stack, "problems": [], "files": len(srcs)}
    try:
        cfgs = []
        for i, t in enumerate(stack):
            open(os.path.join(d, "s%d.yaml" % i), "w").write(t)
            cfgs.append("s%d.yaml" % i)
        base = (["--style", style] if style else []) + (["-c"] + cfgs if cfgs else [])
        rc, so, se = cli(base + ["-oc", "oc1.json"], d)
        if not os.path.exists(os.path.join(d, "oc1.json")):
            res["problems"].append(("oc-failed", "-oc did not write a file: " + se[-200:]))
            return res
        rc, so, se = cli(["-c", "oc1.json", "-oc", "oc2.json"], d)
        if not os.path.exists(os.path.join(d, "oc2.json")):
            last = [l for l in se.strip().split("\n") if l.strip()][-1:] or ["?"]
            res["problems"].append(("oc-not-accepted:" + last[0].split(":")[0], "the emitted configuration is not accepted back: " + last[0][:200]))
            return res
        a, b = json.load(open(os.path.join(d, "oc1.json"))), json.load(open(os.path.join(d, "oc2.json")))
        if a != b:
            ks = [x for x in sorted(set(a) | set(b)) if a.get(x) != b.get(x)]
            detail = ks[0]
            if ks[0] == "rule":
                rid = next(x for x in a["rule"] if a["rule"][x] != b["rule"].get(x))
                att = next(y for y in a["rule"][rid] if a["rule"][rid][y] != b["rule"].get(rid, {}).get(y))
                detail = "rule %s attribute %s: %r -> %r" % (rid, att, a["rule"][rid][att], b["rule"].get(rid, {}).get(att))
            res["problems"].append(("oc-not-idempotent:" + ks[0], "emitting the emitted configuration again gives a different file (%s)" % detail))
        name0 = "f0.vhd"
        for t in stack:
            m0 = re.search(r"file_rules:\n- (\S*f0\.vhd):", t)
            if m0:
                name0 = m0.group(1)
        os.makedirs(os.path.join(d, "x"), exist_ok=True)
        for i, src in enumerate(srcs):
            out = {}
            fname = name0 if i == 0 else "f%d.vhd" % i
            for tag, args in (("orig", base), ("emitted", ["-c", "oc1.json"])):
                f = os.path.join(d, "f%d.vhd" % i)
                shutil.copy(src, f)
                rc, so, se = cli(["-f", fname, "-ap", "-p", "1", "--json", "j.json"] + args, d)
                try:
                    v = sorted((x["rule"], x["linenumber"], x["severity"], x["solution"]) for fe in json.load(open(os.path.join(d, "j.json")))["files"] for x in fe["violations"])
                except Exception:
                    v = "no-report:" + ([l for l in se.strip().split("\n") if l.strip()][-1:] or ["?"])[0][:120]
                shutil.copy(src, f)
                rc2, so2, se2 = cli(["-f", fname, "--fix", "-p", "1"] + args, d)
                out[tag] = (rc, v, open(f).read(), rc2)
                for x in ("j.json",):
                    try:
                        os.unlink(os.path.join(d, x))
                    except OSError:
                        pass
            rel = os.path.relpath(src, vlib.REPO)
            if isinstance(out["orig"][1], str) or isinstance(out["emitted"][1], str):
                if isinstance(out["orig"][1], str) != isinstance(out["emitted"][1], str):
                    res["problems"].append(("report-missing", "%s: %s under the %s configuration" % (rel, out["emitted"][1] if isinstance(out["emitted"][1], str) else out["orig"][1], "emitted" if isinstance(out["emitted"][1], str) else "original")))
                continue
            if out["orig"][1] != out["emitted"][1] or out["orig"][0] != out["emitted"][0]:
                x = [v for v in out["emitted"][1] if v not in out["orig"][1]][:2]
                y = [v for v in out["orig"][1] if v not in out["emitted"][1]][:2]
                site = (x or y or [("exit",)])[0][0]
                res["problems"].append(("report-differs:" + site, "%s: violations under the emitted configuration differ: only emitted %r, only original %r (exit %d vs %d)" % (rel, x, y, out["emitted"][0], out["orig"][0])))
            elif out["orig"][2] != out["emitted"][2]:
                res["problems"].append(("fix-differs", "%s: --fix under the emitted configuration writes a different text" % rel))
    finally:
        shutil.rmtree(d, ignore_errors=True)
    return res


def run(tier):
    import ruletable

    ck = vlib.Check("C17", tier, "proof")
    br = vlib.build()
    names, discharged, assumptions, broken = vlib.theorem_status("C17", br)
    ck.theorems(br, names, discharged, assumptions, broken)
    for b in broken:
        ck.broken_tie(b[:80], b)
    import re, optharvest

    r = vlib.rng("c17")
    rtab = ruletable.by_id()
    oh = optharvest.load()
    opts = [(rid, o) for rid, sets in sorted(oh["per_rule"].items()) for o in sets if [f for f in optharvest.fixtures_for(rid, rtab) if f.endswith("test_input.vhd")]]
    rt = [x for x in ruletable.load() if not x["deprecated"] and x["phase"]]
    ids = [x["id"] for x in rt]
    groups = sorted({g for x in rt for g in x["groups"]})
    pool = [f for f in corpus.files() if ("/rule_doc/" in f or "/styles/" in f or "test_input.vhd" in f) and os.path.getsize(f) < 6000]
    ncases = 36 if tier == "thorough" else 9
    nfiles = 5 if tier == "thorough" else 2
    tmp = tempfile.mkdtemp(prefix="c17_", dir=vlib.BUILD)
    jobs = []
    for k in range(ncases):
        style = [None, "jcl", "indent_only"][k % 3]
        stack = gen_stack(r, ids, groups, k // 3, opts)
        srcs = r.sample(pool, nfiles)
        # when a stack re-enables a rule for f0.vhd, analyse that rule's own fixture as f0.vhd
        for t in stack:
            m = re.search(r"file_rules:\n- \S*f0.vhd:\n    rule:\n      (\w+):", t)
            if m and optharvest.fixtures_for(m.group(1), rtab):
                srcs[0] = [f for f in optharvest.fixtures_for(m.group(1), rtab) if f.endswith("test_input.vhd")][0]
        jobs.append((k, style, stack, srcs, tmp))
    try:
        with Pool(vlib.NCPU) as p:
            res = p.map(_case, jobs, chunksize=1)
    finally:
        shutil.rmtree(tmp, ignore_errors=True)
    for o in res:
        for key, what in o["problems"][:2]:
            ck.violation(key, "style %s, stack %r: %s" % (o["style"], [s[:200] for s in o["stack"]], what), {"kind": "input", "style": o["style"], "stack": o["stack"], "problem": what})
    ck.cov.update({"configurations": len(jobs), "files_per_configuration": nfiles, "cli_runs": len(jobs) * (2 + 4 * nfiles),
                   "with_user_defined_severity": len([j for j in jobs if any("Guideline" in s for s in j[2])]), "with_skip_phase": len([j for j in jobs if any("skip_phase" in s for s in j[2])])})
    ck.sample({"style": jobs[-1][1], "stack": jobs[-1][2]})
    ck.cov["evaluations"] = len(jobs) * (1 + nfiles)
    ck.cov["distinct_nontrivial"] = len([j for j in jobs if j[2]])
    ck.cov["rule"] = "{no style, jcl, indent_only} x random stacks of configuration files (rule / group / global levels, user-defined severities, skip_phase): -oc, then -oc of the emitted file (must be identical), then all-phases report and --fix text of corpus files under the original vs the emitted configuration"
    ck.assumptions = ["the attribute round trip is proved at rule level (oc_reconfigure); 'same violations on every input' is explored on sampled files"]
    return ck.finish()


def replay(rp):
    print(json.dumps(rp, indent=1)[:3000])
    return 0
