# abstraction of real VSG token objects to the kinds of coq/Lines.v
KITEM, KWS, KCOMMENT, KDBEGIN, KDTEXT, KDEND, KPREP, KBLANK, KCR = range(9)
WILD = -9  # pragma.ignore: anything but whitespace may have been turned into it


def kind_of(t):
    from vsg import parser
    from vsg.token import delimited_comment, pragma

    c = type(t)
    if c is parser.carriage_return:
        return KCR
    if c is parser.blank_line:
        return KBLANK
    if c is delimited_comment.beginning:
        return KDBEGIN
    if c is delimited_comment.text:
        return KDTEXT
    if c is delimited_comment.ending:
        return KDEND
    if c is pragma.ignore:
        return WILD
    if isinstance(t, parser.whitespace):
        return KWS
    if isinstance(t, parser.comment):
        return KCOMMENT
    if isinstance(t, parser.preprocessor):
        return KPREP
    return KITEM


def enc_str(s):
    return " ".join(str(ord(c)) for c in s)


def enc_lines(lines):
    return " ".join((enc_str(l) + " -1") if l else "-1" for l in lines)


def enc_toks(toks):
    """toks: list of (kind, value)"""
    return " ".join("%d -2 %s -1" % (k, enc_str(v)) if v else "%d -2 -1" % k for k, v in toks)


def dec_toks(s):
    out = []
    if s.strip() == "":
        return out
    for part in s.split(" | "):
        k, _, v = part.partition(":")
        out.append((int(k), "".join(chr(int(x)) for x in v.split())))
    return out


def dec_strs(s):
    return ["".join(chr(int(x)) for x in part.split()) for part in s.split(" | ")] if s != "" else [""]
