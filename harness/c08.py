# C08: what VSG writes is what it would read
import json
import vlib, tracechecks as T


def evaluate(ck, data, rules, docg):
    n = same = 0
    for o in T.runs(data):
        if o["status"] != "ok":
            continue
        n += 1
        blame = None
        prev = True
        for r in o["records"]:
            if "wsadj" in r:
                if prev and not r["wsadj"] and blame is None:
                    blame = r["rule"]
                prev = r["wsadj"]
        ip = o.get("indent_pass_not_idempotent")
        if ip:
            ck.violation("indent-pass-not-idempotent:" + ip["class"], "%s: set_token_indent applied a second time to the unchanged token list gives %r level %r instead of %r (token %d): the levels a fix run works with are not those a fresh parse computes" % (T.tag(o), ip["value"], ip["second"], ip["first"], ip["index"]), T.rep(o, oracle="indent-pass", detail=ip))
        if o.get("init_shape") is False:
            ck.broken_tie("T2:reader-shape", "%s: the list the real reader returned does not have the shape ShapeProofs.read_shape proves of the model's" % T.tag(o))
        if o.get("end_shape") is False:
            blame = T.blame(o, "shape", "init_shape") or blame
        elif o.get("end_glue") is False and o.get("init_glue"):
            blame = T.blame(o, "glue", "init_glue") or blame
        if o.get("reread_rejected"):
            ck.violation("fixed-text-rejected:" + (",".join(sorted({r["rule"] for r in o["records"] if not r.get("wf", True)})[:2]) or blame or "@" + o["rel"]), "%s: the text --fix produced is rejected when read back: %s" % (T.tag(o), o["reread_rejected"]), T.rep(o, oracle="reread"))
            continue
        d = o.get("reread_diff")
        if d:
            def cls(x):
                return x[0].split(".")[-2] + "." + x[0].split(".")[-1] if x else "none"

            sig = "%s/%s" % (cls(d["reread"]), cls(d["memory"]))
            if d["kind"] == "indent":
                sig = "indent-of-" + cls(d["memory"])
                blame = (o.get("indent_writers") or [blame])[0]  # the indent level is not part of the model: the rule that rewrote levels outside an update
            elif d["memory"] and d["memory"][0].endswith("parser.whitespace") and d["memory"][1] == "":
                sig = "empty-whitespace-token"
            who = blame or ("@" + o["rel"])
            if sig == "empty-whitespace-token" and blame and T.optkey(o):
                who = T.optkey(o) + ":" + blame
            ck.violation("reread-differs:%s:%s" % (sig, who), "%s: parsing the emitted text gives %r where the in-memory model has %r (token %d)%s" % (T.tag(o), d["reread"], d["memory"], d["index"], "; first rule application after which the model lost the reader shape / glued code tokens / left adjacent whitespace tokens: " + blame if blame else ""), T.rep(o, oracle="reread", detail=d))
        elif o.get("report_diff"):
            rd = o["report_diff"]
            site = ((rd["only_fresh"] or rd["only_after_fix"] or [["order-or-multiplicity"]])[0][0])
            ck.violation("report-after-fix-differs:" + site, "%s: the violations reported at the end of the fix run differ from a fresh check of the written text: only fresh %r, only after fix %r" % (T.tag(o), rd["only_fresh"], rd["only_after_fix"]), T.rep(o, oracle="report", detail=rd))
        else:
            same += 1
    ck.sample({"fix_runs_reread": n, "identical": same})
    return {"fix_runs_reread": n, "reread_identical_and_report_equal": same, "evaluations": n}


def _cli_case(job):
    """--fix through the command line, then a plain run on the file it wrote: the two JSON reports must agree"""
    import os, json, shutil, tempfile, random, yaml

    k, src, seed = job
    r = random.Random("c08cli:" + os.path.relpath(src, vlib.REPO))  # the configuration belongs to the file: the thorough tier (every file) contains every run quick can sample
    d = tempfile.mkdtemp(prefix="c08c_", dir=vlib.BUILD)
    out = {"src": src, "problem": None, "cfg": None}
    try:
        f = os.path.join(d, "f.vhd")
        shutil.copy(src, f)

        def run(args, jf):
            vlib.sh(vlib.vsg_cmd() + ["-f", "f.vhd", "-p", "1", "--json", jf] + args, cwd=d, env=vlib.repo_env(), timeout=900)
            try:
                return sorted((v["rule"], v["linenumber"], v["solution"], v.get("severity")) for fe in json.load(open(os.path.join(d, jf)))["files"] for v in fe["violations"])
            except Exception:
                return None

        pre = run(["-ap"], "p.json")
        if not pre:
            return out
        ids = sorted({v[0] for v in pre})
        cfg = {"rule": {}}
        # a configuration under which some reported rules stay unrepaired and some are only warnings
        for rid in r.sample(ids, min(len(ids), r.randint(1, 4))):
            cfg["rule"][rid] = r.choice([{"fixable": False}, {"severity": "Warning"}, {"severity": "Warning", "fixable": False}])
        if r.random() < 0.34:
            cfg = {}
        try:
            import ruletable

            here = os.path.basename(os.path.dirname(src))
            for row in ruletable.load():
                if row["disable"] and not row["deprecated"] and row["module"].split(".")[2] == here:
                    cfg.setdefault("rule", {}).setdefault(row["id"], {})["disable"] = False
        except Exception:
            pass
        args = []
        if cfg:
            open(os.path.join(d, "c.yaml"), "w").write(yaml.safe_dump(cfg))
            args = ["-c", "c.yaml"]
        out["cfg"] = cfg
        a = run(args + ["--fix"], "a.json")
        b = run(args, "b.json")
        if a is None or b is None:
            return out
        if a != b:
            import collections as _c

            ca, cb = _c.Counter(a), _c.Counter(b)
            only_a = list((ca - cb).elements())[:3]
            only_b = list((cb - ca).elements())[:3]
            out["problem"] = {"only_after_fix": only_a, "only_fresh": only_b}
    finally:
        shutil.rmtree(d, ignore_errors=True)
    return out


def cli_extra(ck, data, rules, docg):
    import os
    from multiprocessing import Pool
    import corpus

    r = vlib.rng("c08cli")
    pool = [f for f in corpus.files() if f.endswith("test_input.vhd") and 300 < os.path.getsize(f) < 6000]
    jobs = [(k, f, vlib.seed()) for k, f in enumerate(sorted(pool) if ck.tier == "thorough" else r.sample(sorted(pool), 16))]
    with Pool(vlib.NCPU) as p:
        res = p.map(_cli_case, jobs, chunksize=1)
    bad = 0
    for o in res:
        if o["problem"]:
            bad += 1
            pr = o["problem"]
            site = (pr["only_after_fix"] or pr["only_fresh"] or [("order",)])[0][0]
            ck.violation("cli-report-after-fix-differs:" + site, "%s under %r: the report of `vsg --fix` differs from the report of a plain run on the file it wrote: only after the fix %r, only fresh %r" % (os.path.relpath(o["src"], vlib.REPO), o["cfg"], pr["only_after_fix"], pr["only_fresh"]),
                         {"kind": "input", "file": os.path.relpath(o["src"], vlib.REPO), "config": o["cfg"], "oracle": "cli-report", "detail": pr})
    ck.cov["cli_fix_then_check"] = {"files": len(jobs), "with_configuration": len([o for o in res if o["cfg"]]), "reports_differ": bad}


def run(tier):
    return T.run_prop("C08", tier, "translation_validation", evaluate,
                      "every observed fix run of the shared trace: the emitted text is parsed again with the real parser and compared token by token (class, value, indent level) with the in-memory model; the all-phases report of the in-memory rule list is compared with that of a fresh rule list on the re-read file; the extracted checker evaluates the reader shape (C08_reread_requires_shape), glued code tokens and adjacent whitespace tokens after every rule application and names the application after which the model stopped being something the reader can return",
                      ["indent levels are compared through the real set_token_indent (258 lines of table-driven state, not modelled)", "the lexical half rests on C04's emit_read / tokenizer theorems; this check is the differential for the part that is not modelled",
                       "through the command line: `vsg --fix --json` against `vsg --json` on the written file, with and without a configuration that leaves reported rules unrepaired (fixable: false) or turns them into warnings"], extra=cli_extra)


def replay(rp):
    return T.replay(rp)
