# C12: configuration is obeyed with the documented precedence
import os, sys, io, json, copy, contextlib, tempfile, shutil
from multiprocessing import Pool
import vlib, corpus

FNAME = "src/unit.vhd"
EXTRA_KEYS = ["solution", "no_such_attribute", "debug", "remap", "subphase"]


class Intern:
    def __init__(self):
        self.d = {}

    def __call__(self, x):
        return self.raw(norm(x))

    def raw(self, k):
        if k not in self.d:
            self.d[k] = len(self.d)
        return self.d[k]


def gen_case(r, meta):
    """meta: list of (uid, groups, configuration, dict keys, option names, deprecated). Returns the list of per-file
    configuration dicts (to be merged in order), the file_list entry and the file_rules entry for FNAME."""
    ids = [m[0] for m in meta if not m[5]]
    by = {m[0]: m for m in meta}
    groups = sorted({g for m in meta for g in m[1]})

    def attr_for(uid):
        m = by[uid]
        pool = list(m[2]) + EXTRA_KEYS
        return r.choice(pool)

    def val(a):
        if a == "severity":
            return r.choice(["Error", "Warning", "Warning", "Guideline", "NoSuchSeverity"] if r.random() < 0.2 else ["Error", "Warning", "Guideline"])
        if a in ("disable", "fixable"):
            return r.random() < 0.5
        if a in ("phase", "indent_size", "subphase"):
            return r.randint(0, 8)
        return r.choice(["upper", "lower", True, False, 3, "x", ["a"], None])

    def entry(uid, n=None):
        return {attr_for(uid): None for _ in range(n or r.randint(1, 3))}

    def rule_section(depth):
        sec = {}
        if r.random() < 0.5:
            e = {}
            for _ in range(r.randint(1, 3)):
                a = r.choice(["disable", "fixable", "severity", "phase", "indent_size", "indent_style", "case", "user_error_message", "no_such_attribute", "solution"])
                e[a] = val(a)
            sec["global"] = e
        if r.random() < 0.6:
            g = {}
            for gn in r.sample(groups, r.randint(1, 3)):
                e = {}
                for _ in range(r.randint(1, 2)):
                    a = r.choice(["disable", "fixable", "severity", "phase", "indent_size", "case", "solution", "no_such_attribute"])
                    e[a] = val(a)
                g[gn] = e
            sec["group"] = g
        for uid in r.sample(ids, r.randint(0, 6)) + (focus if depth else []):
            e = {}
            for a in entry(uid):
                e[a] = val(a)
            sec[uid] = e
        return sec

    focus = r.sample(ids, 3)
    files = []
    for i in range(r.randint(1, 3)):
        f = {}
        if r.random() < 0.85:
            f["rule"] = rule_section(True)
        if r.random() < 0.4:
            f["severity"] = {"Guideline": {"type": r.choice(["warning", "error"])}}
        files.append(f)
    k = r.random()
    if k < 0.06:
        files[-1].setdefault("rule", {})["no_such_rule_001"] = {"disable": True}
    elif k < 0.12:
        dep = [m[0] for m in meta if m[5]]
        if dep:
            files[-1].setdefault("rule", {})[r.choice(dep)] = {"disable": True}
    fl = fr = None
    if r.random() < 0.45:
        fl = {"rule": rule_section(True)} if r.random() < 0.85 else {}
    if r.random() < 0.45:
        fr = {"rule": rule_section(True)} if r.random() < 0.85 else {}
    return files, fl, fr


def _real(job):
    """run the real merge + configure for a batch of cases in one process; returns snapshots"""
    cases, style = job
    from vsg import config, rule_list, vhdlFile, apply_rules, severity
    from vsg.exceptions import ConfigurationError

    out = []
    base_style = config.read_predefined_style(style) if style else {}
    o = vhdlFile.vhdlFile([""])
    for files, fl, fr in cases:
        try:
            d = copy.deepcopy(base_style) or {}
            for f in files:
                d = config.process_config_file(d, copy.deepcopy(f), "cfg")
            if fl is not None:
                d.setdefault("file_list", []).append({FNAME: copy.deepcopy(fl)})
            if fr is not None:
                d.setdefault("file_rules", []).append({FNAME: copy.deepcopy(fr)})
            oc = config.config()
            oc.dConfig = d
            oc.severity_list = severity.create_list(d)
            with contextlib.redirect_stdout(io.StringIO()):
                rl = rule_list.rule_list(o, oc.severity_list)
                try:
                    apply_rules.configure_rules(oc, rl, d, 0, FNAME)
                except ConfigurationError:
                    out.append("ERR")
                    continue
            snap = {}
            for r in rl.rules:
                snap[r.unique_id] = (getattr(r.severity, "name", None), {k: norm(v) for k, v in r.__dict__.items() if k not in ("severity", "violations", "options", "dFix", "configuration", "groups", "prerequisites")},
                                     {op.name: norm(op.value) for op in r.options})
            out.append(snap)
        except BaseException as e:  # noqa
            import traceback

            out.append("CRASH " + type(e).__name__ + ": " + str(e)[:100] + " @ " + " <- ".join("%s:%d" % (os.path.basename(f.filename), f.lineno) for f in traceback.extract_tb(e.__traceback__)[-2:][::-1]))
    return out


def _meta(style):
    from vsg import rule_list, vhdlFile, severity, deprecated_rule

    rl = rule_list.rule_list(vhdlFile.vhdlFile([""]), severity.create_list({}))
    meta = []
    for r in rl.rules:
        dk = [k for k in r.__dict__ if k not in ("severity", "violations", "options", "dFix", "configuration", "groups", "prerequisites")]
        meta.append((r.unique_id, list(r.groups), list(r.configuration), dk, [op.name for op in r.options], bool(r.deprecated) or isinstance(r, deprecated_rule.Rule),
                     {k: norm(r.__dict__[k]) for k in dk}, {op.name: norm(op.value) for op in r.options}, r.severity.name))
    return meta


def enc_case(case, meta, style_sec, sevnames_of):
    """integer stream for the extracted model; returns (text, decoder tables)"""
    files, fl, fr = case
    I = Intern()
    K = Intern()
    G = Intern()
    U = Intern()
    S = Intern()
    for n in ("Error", "Warning"):
        S(n)
    sev_key = K("severity")
    merged_sev = {}
    for f in ([style_sec] if style_sec else []) + files:
        if "severity" in f:
            merged_sev = f["severity"]  # process_config_file replaces the whole key
    sevlist = ["Error", "Warning"] + [k for k in merged_sev if merged_sev[k].get("type") in ("error", "warning")]
    out = [sev_key, len(sevlist)] + [S(n) for n in sevlist]
    out.append(len(meta))
    for uid, groups, conf, dk, opts, dep, dvals, ovals, sevname in meta:
        out += [U(uid), 1 if dep else 0, len(groups)] + [G(g) for g in groups] + [len(conf)] + [K(c) for c in conf]
        out.append(len(dk))
        for k in dk:
            out += [K(k), I.raw(dvals[k])]
        out.append(len(opts))
        for k in opts:
            out += [K(k), I.raw(ovals[k])]
        out.append(S(sevname))

    def pairs(e):
        r = [len(e)]
        for k, v in e.items():
            r += [K(k), S(v) if k == "severity" else I(v)]
        return r

    def section(f):
        if f is None or "rule" not in f:
            return [0]
        sec = f["rule"]
        r = [1]
        r += ([1] + pairs(sec["global"])) if "global" in sec else [0]
        if "group" in sec:
            r += [1, len(sec["group"])]
            for gn, e in sec["group"].items():
                r += [G(gn)] + pairs(e)
        else:
            r += [0]
        rs = [(k, v) for k, v in sec.items() if k not in ("global", "group")]
        r.append(len(rs))
        for uid, e in rs:
            r += [U(uid)] + pairs(e)
        return r

    allfiles = ([style_sec] if style_sec else []) + files
    out.append(len(allfiles))
    for f in allfiles:
        out += section(f)
    for st in (fl, fr):
        out += [0] if st is None else [1] + section(st)
    return " ".join(map(str, out)), (I, K, U, S)


def decode(m, tabs):
    if m == "ERR":
        return "ERR"
    I, K, U, S = tabs
    inv = lambda T: {v: k for k, v in T.d.items()}
    iI, iK, iU, iS = inv(I), inv(K), inv(U), inv(S)
    res = {}
    for part in m.split(" | "):
        uid, sev, d, o = [x.strip() for x in part.split(" : ")] if part.count(" : ") == 3 else (part.split(" : ") + ["", ""])[:4]
        dd = {json.loads(iK[int(kv.split("=")[0])]): iI[int(kv.split("=")[1])] for kv in d.split()} if d.strip() else {}
        oo = {json.loads(iK[int(kv.split("=")[0])]): iI[int(kv.split("=")[1])] for kv in o.split()} if o.strip() else {}
        res[json.loads(iU[int(uid)])] = (None if sev.strip() == "-" else json.loads(iS[int(sev)]), dd, oo)
    return res


def _repr(v):
    import re

    return re.sub(r" at 0x[0-9a-f]+", "", repr(v))


def spec_effective(case, style_sec, m, key):
    """the property's own reading, for a documented configurable attribute of rule m: the value given by the most
    specific source that mentions it (file_rules > file_list > rule > group > global), later files over earlier
    ones entry by entry; None = nobody mentions it"""
    files, fl, fr = case
    uid, groups = m[0], m[1]
    merged = {}
    for f in ([style_sec] if style_sec else []) + files:
        for name, e in (f.get("rule") or {}).items():
            merged[name] = e

    def from_section(sec):
        if not sec:
            return None
        if uid in sec and key in sec[uid]:
            return ("v", sec[uid][key])
        hit = None
        for gn, e in (sec.get("group") or {}).items():
            if gn in groups and key in e:
                hit = ("v", e[key])
        if hit:
            return hit
        if "global" in sec and key in sec["global"]:
            return ("v", sec["global"][key])
        return None

    for sec in ((fr or {}).get("rule"), (fl or {}).get("rule"), merged):
        r = from_section(sec)
        if r:
            return r
    return None


def norm(v):
    try:
        return json.dumps(v, sort_keys=True, default=_repr)
    except Exception:
        return _repr(v)


def run(tier):
    ck = vlib.Check("C12", tier, "proof")
    br = vlib.build()
    names, discharged, assumptions, broken = vlib.theorem_status("C12", br)
    ck.theorems(br, names, discharged, assumptions, broken)
    for b in broken:
        ck.broken_tie(b[:80], b)
    if not br.ocaml_ok:
        ck.broken_tie("build:ocaml", br.ocaml_log[-400:])
        return ck.finish()
    r = vlib.rng("c12")
    ncases = 400 if tier == "thorough" else 80
    total = diffs = errs = crashes = 0
    for style in (None, "jcl"):
        with Pool(1) as p:
            meta = p.apply(_meta, (style,))
        cases = [gen_case(r, meta) for _ in range(ncases if style is None else ncases // 4)]
        chunks = [cases[i::vlib.NCPU] for i in range(vlib.NCPU)]
        with Pool(vlib.NCPU) as p:
            real_chunks = p.map(_real, [(c, style) for c in chunks])
        real = [None] * len(cases)
        for i, ch in enumerate(real_chunks):
            for j, x in enumerate(ch):
                real[i + j * vlib.NCPU] = x
        style_sec = None
        if style:
            import yaml

            style_sec = yaml.full_load(open(os.path.join(vlib.REPO, "vsg", "styles", style + ".yaml")))
        enc = [enc_case(c, meta, style_sec, None) for c in cases]
        model = vlib.run_model("config", [e[0] for e in enc])
        for case, rl, m, (_, tabs) in zip(cases, real, model, enc):
            total += 1
            rep = {"kind": "input", "style": style, "files": case[0], "file_list_entry": case[1], "file_rules_entry": case[2], "file": FNAME}
            if isinstance(rl, str) and rl.startswith("CRASH"):
                crashes += 1
                ck.violation("configure-crash:" + rl.split(" @ ")[-1].split(" <- ")[0] + ":" + rl.split(":")[0].replace("CRASH ", ""), "configuring %r raises %s" % (json.dumps(case)[:300], rl), rep)
                continue
            md = decode(m, tabs)
            if rl == "ERR" or md == "ERR":
                errs += 1
                if rl != md:
                    diffs += 1
                    # which side is right is decided by the property: unknown / deprecated rule names must be rejected
                    names_ = [k for f in case[0] + [x for x in case[1:] if x] for k in f.get("rule", {}) if k not in ("global", "group")]
                    known = {x[0]: x[5] for x in meta}
                    must = any(k not in known or known[k] for k in names_)
                    if must and rl != "ERR":
                        ck.violation("unknown-or-deprecated-rule-accepted", "a configuration naming %r is accepted" % [k for k in names_ if k not in known or known[k]][:3], rep)
                    else:
                        ck.broken_tie("T2:configure~Config.configure_rules", "error status differs: model %s implementation %s for %s" % ("ERR" if md == "ERR" else "ok", "ERR" if rl == "ERR" else "ok", json.dumps(case)[:300]))
                continue
            bad = None
            for uid, (sev, dd, oo) in rl.items():
                msev, mdd, moo = md.get(uid, (None, {}, {}))
                if sev != msev:
                    bad = (uid, "severity", sev, msev)
                    break
                for k, v in dd.items():
                    if v != mdd.get(k, "<absent>"):
                        bad = (uid, k, v, mdd.get(k, "<absent>"))
                        break
                if bad:
                    break
                for k, v in oo.items():
                    if v != moo.get(k, "<absent>"):
                        bad = (uid, "option:" + k, v, moo.get(k, "<absent>"))
                        break
                if bad:
                    break
            if bad:
                diffs += 1
                mm = next(x for x in meta if x[0] == bad[0])
                k = bad[1]
                if k in mm[2] and k in mm[3] and k != "severity":
                    sp = spec_effective(case, style_sec, mm, k)
                    want = norm(sp[1]) if sp else mm[6][k]
                    if bad[2] != want:
                        ck.violation("precedence:%s" % k, "rule %s attribute %s: the most specific source that mentions it gives %s, the rule object has %s; configuration %s" % (bad[0], k, want, bad[2], json.dumps(case)[:600]), dict(rep, rule=bad[0], attribute=k, expected=want, got=bad[2]))
                        continue
                ck.broken_tie("T2:configure~Config.configure_rules", "rule %s attribute %s: implementation %r, model %r; configuration %s" % (bad[0], bad[1], bad[2], bad[3], json.dumps(case)[:400]))
    ck.cov.update({"configuration_stacks": total, "rejected_stacks": errs, "crashes": crashes, "model_vs_impl_diffs": diffs, "rules_compared_per_stack": 1049})
    ck.sample({"stack": cases[0][0], "file_list_entry": cases[0][1], "file_rules_entry": cases[0][2]})
    nb = behaviour(ck, tier)
    ck.cov["evaluations"] = total + nb
    ck.cov["distinct_nontrivial"] = total - errs
    ck.cov["rule"] = "random stacks of 1-3 configuration files (global / group / rule levels, user-defined severities, unknown and deprecated rule names, unknown attributes) merged by the real process_config_file on top of {no style, jcl}, plus file_list and file_rules entries for the file, applied by the real apply_rules.configure_rules to all 1049 rule objects; every rule's __dict__, option objects and severity compared with the extracted model; CLI behaviour runs for disable / fixable / severity"
    ck.assumptions = ["values are interned by their JSON text", "a rule's behaviour under an option value (the verdict changes as documented) is per-rule logic and is not covered here beyond the disable / fixable / severity switches"]
    return ck.finish()


def behaviour(ck, tier):
    """the effective value is the one the rule acts on: disabled = silent, fixable: false = report only,
    severity change = exit status and JUnit content"""
    import subprocess, xml.etree.ElementTree as ET

    src = os.path.join(vlib.REPO, "tests", "rule_doc", "rule_documentation_test_input.vhd")
    if not os.path.exists(src):
        src = corpus.sample(1, "c12b")[0]
    tmp = tempfile.mkdtemp(prefix="c12_", dir=vlib.BUILD)
    n = 0
    try:
        f = os.path.join(tmp, "f.vhd")

        def run(cfg_text, fix=False):
            shutil.copy(src, f)
            c = os.path.join(tmp, "c.yaml")
            open(c, "w").write(cfg_text)
            p = subprocess.run(vlib.vsg_cmd() + ["-f", "f.vhd", "-c", "c.yaml", "-ap", "-p", "1", "--json", "j.json", "--junit", "j.xml"] + (["--fix"] if fix else []), cwd=tmp, env=vlib.repo_env(), stdout=subprocess.PIPE, stderr=subprocess.PIPE, text=True, timeout=600)
            try:
                js = [v for fe in json.load(open(os.path.join(tmp, "j.json")))["files"] for v in fe["violations"]]
            except Exception:
                js = None
            try:
                ju = [x.strip() for fl_ in ET.parse(os.path.join(tmp, "j.xml")).getroot().iter("failure") for x in (fl_.text or "").split("\n") if x.strip()]
            except Exception:
                ju = None
            return p.returncode, js, ju, open(f).read()

        rc0, v0, j0, _ = run("rule: {}\n")
        n += 1
        if not v0:
            return n
        rid = sorted({v["rule"] for v in v0})[0]
        grp = None
        # rule-level over global: everything disabled globally, one rule enabled again
        rc, v, j, _ = run("rule:\n  global:\n    disable: true\n  %s:\n    disable: false\n" % rid)
        n += 1
        if v is None or {x["rule"] for x in v} != {rid}:
            ck.violation("behaviour:rule-level-over-global", "global disable + %s enabled at rule level: reported rules %r" % (rid, sorted({x["rule"] for x in (v or [])})[:5]), {"kind": "input", "config": "global disable, rule enable", "rule": rid})
        # file_rules over rule level
        rc, v, j, _ = run("rule:\n  %s:\n    disable: false\nfile_rules:\n  - f.vhd:\n      rule:\n        %s:\n          disable: true\n" % (rid, rid))
        n += 1
        if v is None or rid in {x["rule"] for x in v}:
            ck.violation("behaviour:file-rules-over-rule-level", "%s disabled under file_rules still reports" % rid, {"kind": "input", "rule": rid})
        # severity: all warnings -> exit 0, JUnit empty
        rc, v, j, _ = run("rule:\n  global:\n    severity: Warning\n")
        n += 1
        if rc != 0 or j:
            ck.violation("behaviour:warning-severity", "every rule a Warning: exit %d, JUnit failures %d" % (rc, len(j or [])), {"kind": "input"})
        # per-file severity (repaired in this tree): one rule back to Error for this file
        rc, v, j, _ = run("rule:\n  global:\n    severity: Warning\nfile_rules:\n  - f.vhd:\n      rule:\n        %s:\n          severity: Error\n" % rid)
        n += 1
        if rc != 1 or not j or any(not x.startswith(rid) for x in j):
            ck.violation("behaviour:per-file-severity", "%s set to Error under file_rules, all else Warning: exit %d, JUnit %r" % (rid, rc, (j or [])[:2]), {"kind": "input", "rule": rid})
        # fixable: false -> report only
        rc, v, j, text = run("rule:\n  global:\n    fixable: false\n", fix=True)
        n += 1
        if text != open(src).read():
            ck.violation("behaviour:fixable-false", "fixable: false for every rule, --fix changed the file", {"kind": "input"})
    finally:
        shutil.rmtree(tmp, ignore_errors=True)
    ck.cov["behaviour_cli_runs"] = n
    return n


def replay(rp):
    print(json.dumps(rp, indent=1)[:4000])
    return 0
