# rule metadata of the tree under test, extracted from the live rule objects (T1)
import os, sys, json, subprocess
import vlib

_SCRIPT = r'''
import sys, json, inspect
from vsg import rule_list, deprecated_rule, rule as rule_mod
rows = []
for r in rule_list.load_rules():
    mro = [c.__module__ + "." + c.__name__ for c in type(r).__mro__ if c.__module__.startswith("vsg")]
    def lit(v):
        try:
            json.dumps(v); return v
        except Exception:
            return repr(v)
    rows.append(dict(id=r.unique_id, name=r.name, identifier=r.identifier, phase=r.phase, subphase=r.subphase,
        groups=list(r.groups), fixable=bool(r.fixable), disable=bool(r.disable), sev_name=r.severity.name, sev_type=r.severity.type,
        remap=bool(r.remap), deprecated=bool(r.deprecated) or isinstance(r, deprecated_rule.Rule), proposed=bool(r.proposed),
        configuration=list(r.configuration), options=[o.name for o in r.options], mro=mro, module=type(r).__module__,
        overrides_fix=("_fix_violation" in {k for c in type(r).__mro__ if c is not rule_mod.Rule for k in c.__dict__}),
        config_values={k: lit(getattr(r, k, None)) for k in r.configuration if k != "severity"},
        prerequisites=[getattr(p, "unique_id", repr(p)) for p in r.prerequisites]))
rows.sort(key=lambda d: d["id"] or "")
json.dump(rows, sys.stdout)
'''


def load(refresh=False):
    path = os.path.join(vlib.BUILD, "ruletable_%s.json" % vlib.tree_hash(("vsg",)))
    if os.path.exists(path) and not refresh:
        return json.load(open(path))
    p = subprocess.run([vlib.PY, "-W", "ignore", "-c", _SCRIPT], env=vlib.repo_env(), stdout=subprocess.PIPE, stderr=subprocess.PIPE, text=True, timeout=300)
    if p.returncode != 0:
        raise RuntimeError("rule table extraction failed: " + p.stderr[-800:])
    rows = json.loads(p.stdout)
    os.makedirs(vlib.BUILD, exist_ok=True)
    with open(path, "w") as f:
        json.dump(rows, f)
    return rows


def by_id():
    return {r["id"]: r for r in load()}
