# Executed in a subprocess: runs the real apply_rules.write_vhdl_file (or apply_rules.apply_rules) under a shim
# that injects the faults of one schedule at OS-call level. argv[1] = JSON scenario. Prints one JSON line.
import sys, os, json, builtins, signal, io, stat

sc = json.loads(sys.argv[1])
sys.path.insert(0, sc["repo"])
import vsg.apply_rules as ar

fn = sc["file"]
tmpname = fn + ".tmp"
faults = sc.get("faults", {})  # step -> kind in {"crash","crashmid","perm","oserr","oserrmid"}
trace = []
ORIG = {k: getattr(os, k) for k in ("stat", "chmod", "replace", "remove", "rename", "unlink", "open", "fdopen")}
real_open = builtins.open
seen = set()


def fire(step, mid=None):
    """first occurrence of each step only"""
    if step in seen:
        return
    seen.add(step)
    k = faults.get(step)
    if k is None:
        return
    if k in ("crashmid", "oserrmid") and mid is not None:
        mid()
    sys.stdout.flush()
    if k in ("crash", "crashmid"):
        os.kill(os.getpid(), signal.SIGKILL)
    if k == "perm":
        raise PermissionError(13, "injected permission error")
    raise OSError(28, "injected: no space left on device")


def is_tmp(p):
    try:
        return os.fspath(p) == tmpname
    except TypeError:
        return False


def is_target(p):
    try:
        return os.fspath(p) == fn
    except TypeError:
        return False


class W:
    def __init__(self, fh):
        self.fh = fh
        self.closed_ = False

    def write(self, s):
        trace.append("write")

        def mid():
            self.fh.write(s[: max(1, len(s) // 2)])
            self.fh.flush()

        fire("write", mid)
        return self.fh.write(s)

    def close(self):
        if not self.closed_:
            self.closed_ = True
            trace.append("close")
            self.fh.close()
            fire("close")

    def __enter__(self):
        return self

    def __exit__(self, et, ev, tb):
        if et is None:
            self.close()
        else:
            self.fh.close()
        return False

    def __getattr__(self, n):
        return getattr(self.fh, n)


def fopen(path, *a, **k):
    mode = a[0] if a else k.get("mode", "r")
    if is_target(path) and any(c in mode for c in "wax+"):
        # the target itself is opened for writing: whatever follows is not an atomic replacement
        trace.append("open-target-for-write")
        fh = real_open(path, *a, **k)
        fire("target_write")
        return fh
    if is_tmp(path) and ("w" in mode or "a" in mode or "x" in mode):
        trace.append("open")
        fire("open")
        return W(real_open(path, *a, **k))
    if isinstance(path, int) and path in tmp_fds:
        return W(real_open(path, *a, **k))
    return real_open(path, *a, **k)


tmp_fds = set()


def wrap(name, step, pred):
    f = ORIG[name]

    def g(*a, **k):
        if a and pred(a[0]):
            trace.append(name)
            fire(step)
        return f(*a, **k)

    return g


def os_open(path, *a, **k):
    if is_tmp(path):
        trace.append("os.open")
        fire("open")
        fd = ORIG["open"](path, *a, **k)
        tmp_fds.add(fd)
        return fd
    return ORIG["open"](path, *a, **k)


builtins.open = fopen
io.open = fopen
os.stat = wrap("stat", "stat", is_target)
os.chmod = wrap("chmod", "chmod", is_tmp)
os.replace = wrap("replace", "replace", is_tmp)
os.rename = wrap("rename", "replace", is_tmp)
os.remove = wrap("remove", "remove", is_tmp)
os.unlink = wrap("unlink", "remove", is_tmp)
os.open = os_open


class F:  # what write_vhdl_file needs of a vhdlFile
    def __init__(self, filename, lines):
        self.filename = filename
        self._l = lines

    def get_lines(self):
        return [""] + self._l


res = "returned"
try:
    import contextlib

    with contextlib.redirect_stdout(io.StringIO()):
        ar.write_vhdl_file(F(fn, sc["fixed_lines"]), {})
except BaseException as e:
    res = "raised:" + type(e).__name__
sys.__stdout__.write(json.dumps({"result": res, "trace": trace}) + "\n")
