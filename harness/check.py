import sys, os, json, importlib, traceback
import vlib


def main():
    a = sys.argv[1:]
    if a and a[0] == "--replay":
        rp = json.load(open(a[1]))
        mod = importlib.import_module(rp["property"].lower())
        return mod.replay(rp)
    pid = a[0]
    tier = a[1] if len(a) > 1 else os.environ.get("VERIF_TIER", "quick")
    mod = importlib.import_module(pid.lower())
    return mod.run(tier)


if __name__ == "__main__":
    sys.exit(main())
