# Pass A: one observed fix run of one file under one configuration, executed inside a worker process.
# Produces (1) a trace file for the extracted checker (build/vsgmodel trace <file>), (2) Python-side findings
# that need object identity (C18 index / toi checks), (3) the end-to-end facts (re-read, second fix, reports).
import os, sys, io, json, hashlib, contextlib, traceback, time

KIND = {"code": 0, "ws": 1, "cr": 2, "blank": 3, "comment": 4, "dtext": 5, "prep": 6, "ignore": 7, "bof": 0}


class Abstraction:
    def __init__(self, roles):
        self.role = {r["name"]: (r["id"], KIND[r["kind"]]) for r in roles}
        self.ids = {}
        self.keep = []
        self.cache = {}

    def ident(self, t):
        i = self.ids.get(id(t))
        if i is None:
            i = len(self.keep)
            self.ids[id(t)] = i
            self.keep.append(t)
        return i

    def rk(self, t):
        c = type(t)
        x = self.cache.get(c)
        if x is None:
            x = self.role.get(c.__module__ + "." + c.__name__, (0, 0))
            self.cache[c] = x
        return x

    def enc(self, toks):
        out = [str(len(toks))]
        for t in toks:
            r, k = self.rk(t)
            v = t.value if t.value is not None else ""
            out.append("%d %d %d %d" % (self.ident(t), r, k, len(v)))
            if v:
                out.append(" ".join(map(str, map(ord, v))))
        return " ".join(out)

    def digest(self, toks):
        parts = []
        for t in toks:
            v = t.value if t.value is not None else ""
            parts.append("%d:%d:%s;" % (self.ident(t), self.rk(t)[0], "".join("%d," % ord(c) for c in v)))
        return hashlib.md5("".join(parts).encode()).hexdigest()


def role_delta(ab, before, edits):
    """code-token classes an application inserted / deleted (diagnostics; the optional-role table is built from it)"""
    import collections

    a, b = collections.Counter(), collections.Counter()
    for s_, e_, _, new in edits:
        for t in before[s_:e_]:
            if ab.rk(t)[1] == 0:
                a[type(t).__module__ + "." + type(t).__name__] += 1
        for t in new:
            if ab.rk(t)[1] == 0:
                b[type(t).__module__ + "." + type(t).__name__] += 1
    return sorted((b - a).elements())[:12], sorted((a - b).elements())[:12]


# C01: "the optional keyword and *matching* name after 'end'": module -> (role of the name at the start, role of the
# name after end, role of the keyword that opens an instance)
END_NAMES = {
    "architecture_body": ("identifier", "architecture_simple_name", "architecture_keyword"),
    "block_statement": ("block_label", "end_block_label", "block_keyword"),
    "case_generate_statement": ("generate_label", "end_generate_label", "case_keyword"),
    "for_generate_statement": ("generate_label", "end_generate_label", "for_keyword"),
    "if_generate_statement": ("generate_label", "end_generate_label", "if_keyword"),
    "case_statement": ("case_label", "end_case_label", "case_keyword"),
    "component_declaration": ("identifier", "component_simple_name", "component_keyword"),
    "configuration_declaration": ("identifier", "configuration_simple_name", "configuration_keyword"),
    "context_declaration": ("identifier", "context_simple_name", "context_keyword"),
    "entity_declaration": ("identifier", "entity_simple_name", "entity_keyword"),
    "if_statement": ("if_label", "end_if_label", "if_keyword"),
    "loop_statement": ("loop_label", "end_loop_label", "loop_keyword"),
    "package_declaration": ("identifier", "end_package_simple_name", "package_keyword"),
    "package_body": ("package_simple_name", "end_package_simple_name", "package_keyword"),
    "process_statement": ("process_label", "end_process_label", "process_keyword"),
}


def end_names(toks, init_ids):
    """names after 'end' that were inserted by the run (not objects of the input) and do not repeat the name their
    construct starts with; nesting is followed per token module"""
    st = {}  # module -> dict(stack, pending, closing, fresh)
    bad = []
    for t in toks:
        mod = type(t).__module__
        if not mod.startswith("vsg.token."):
            continue
        m = mod[len("vsg.token."):]
        spec = END_NAMES.get(m)
        if spec is None:
            continue
        opener, endname, kw = spec
        role = type(t).__name__
        d = st.setdefault(m, {"stack": [], "pending": None, "closing": None, "in_end": False, "fresh": False})
        v = (t.get_value() or "").lower()
        if role == endname and d["in_end"]:
            if id(t) not in init_ids and d["closing"] != v:
                bad.append({"module": m, "expected": d["closing"], "found": v})
        elif role == opener and not d["in_end"]:
            if d["fresh"] and d["stack"] and d["stack"][-1] is None:
                d["stack"][-1] = v  # name follows the keyword (architecture rtl, entity e, ...)
            else:
                d["pending"] = v  # label precedes the keyword
            d["fresh"] = False
        elif role == kw and not d["in_end"]:
            d["stack"].append(d["pending"])
            d["pending"] = None
            d["fresh"] = True
        elif role == "end_keyword":
            d["closing"] = d["stack"].pop() if d["stack"] else None
            d["in_end"] = True
            d["fresh"] = False
        elif role == "semicolon" and d["in_end"]:
            d["in_end"] = False
            d["closing"] = None
        else:
            d["fresh"] = d["fresh"] and role in ("is_keyword", "colon", "body_keyword")
    return bad


def exc_text(e):
    tb = traceback.extract_tb(e.__traceback__)
    where = " <- ".join("%s:%d" % (os.path.basename(f.filename), f.lineno) for f in tb[-3:][::-1])
    return "%s: %s @ %s" % (type(e).__name__, str(e)[:120], where)


def run_one(job):
    """job: dict(path, argv (style / -c args), trace_path, roles, probe_index (bool))"""
    t0 = time.time()
    import observe
    from vsg import config, rule_list, vhdlFile, apply_rules, severity, token_map, parser
    from vsg.vhdlFile import utils as vu
    from vsg.vhdlFile.extract import tokens as extract_tokens
    from vsg.exceptions import ClassifyError, ConfigurationError

    path = job["path"]
    out = {"path": path, "argv": job["argv"], "records": [], "c18": [], "status": "ok"}
    if job.get("derive"):
        # boundary option values: a prefix / suffix exception cut out of a token the rule really targets, placed so that
        # the character next to the cut also occurs inside the prefix / suffix
        try:
            import yaml

            rid = job["derive"]
            with contextlib.redirect_stdout(io.StringIO()), contextlib.redirect_stderr(io.StringIO()):
                lines0, _ = vu.read_vhdlfile(path)
                o0 = vhdlFile.vhdlFile(lines0)
                rl0 = rule_list.rule_list(o0, severity.create_list({}))
                r0 = next(x for x in rl0.rules if x.unique_id == rid)
                vals = set()
                for case in ("upper", "lower"):
                    r0.case = case
                    r0.violations = []
                    r0.analyze(o0)
                    for v in r0.violations:
                        try:
                            vals.add(v.get_tokens()[(v.get_action() or {}).get("index", 0)].get_value())
                        except Exception:
                            pass
            cands = []
            for w in sorted(vals):
                for k in range(2, len(w) - 1):
                    if w[k - 1].lower() in w[k:].lower():
                        cands.append(("suffix_exceptions", w[k:]))
                    if w[k].lower() in w[:k].lower():
                        cands.append(("prefix_exceptions", w[:k]))
            import random

            mode = job.get("derive_mode", "one")
            opts = None
            if mode != "one":
                # a prefix and a suffix exception cut out of the same token: apart, adjacent, or overlapping
                both = []
                for w in sorted(vals):
                    if len(w) >= 4 and w[:1].isalpha():
                        for k in range(1, len(w)):
                            for j in range(1, len(w)):
                                if (mode == "both_overlap" and j < k) or (mode == "both" and j >= k):
                                    both.append((w[:k], w[j:]))
                if both:
                    pre, suf = random.Random(path + rid + mode).choice(both)
                    opts = {"prefix_exceptions": [pre], "suffix_exceptions": [suf], "case": random.Random(path).choice(["upper", "lower"])}
                cands = cands if opts is None else [None]
            if not cands:
                out["status"] = "no-derived-option"
                return out
            if opts is None:
                a, v = random.Random(path + rid).choice(cands)
                opts = {a: [v], "case": random.Random(path).choice(["upper", "lower"])}
            with open(job["derive_cfg"], "w") as fh:
                fh.write(yaml.safe_dump({"rule": {rid: opts}}))
            job["argv"] = list(job["argv"]) + ["-c", job["derive_cfg"]]
            out["derived_options"] = opts
        except Exception as e:
            out["status"] = "no-derived-option"
            out["exception"] = repr(e)[:200]
            return out
    ab = Abstraction(job["roles"])
    sink = io.StringIO()
    try:
        with contextlib.redirect_stdout(sink), contextlib.redirect_stderr(sink):
            cla = observe.parse_args(["-f", path, "--fix"] + job["argv"])
            oConfig = config.New(cla)
            lines, err = vu.read_vhdlfile(path)
            try:
                o = vhdlFile.vhdlFile(lines, cla, path, err, oConfig)
            except ClassifyError as e:
                out["status"] = "rejected"
                return out
            o.set_indent_map(oConfig.dIndent)
            # the indent pass runs again before phase 4 of a fix run: on an unchanged list it must reproduce its own result
            ind1 = [t.indent for t in o.lAllObjects]
            o.set_indent_map(oConfig.dIndent)
            ind2 = [t.indent for t in o.lAllObjects]
            if ind1 != ind2:
                k = next(k for k, (a, b) in enumerate(zip(ind1, ind2)) if a != b)
                t = o.lAllObjects[k]
                out["indent_pass_not_idempotent"] = {"index": k, "class": type(t).__module__.replace("vsg.", "") + "." + type(t).__name__, "value": t.get_value()[:60], "first": ind1[k], "second": ind2[k]}
            rl = rule_list.rule_list(o, oConfig.severity_list, None)
            try:
                apply_rules.configure_rules(oConfig, rl, oConfig.dConfig, 0, path)
            except ConfigurationError as e:
                out["status"] = "config-error"
                return out
    except BaseException as e:  # noqa
        out["status"] = "crash-setup"
        out["exception"] = exc_text(e)
        return out
    out["lines_in"] = len(lines)
    init_ids = set(map(id, o.lAllObjects))
    # what a plain check of the same input reports (C07: the report a user acts on vs. what --fix then does)
    check_report = {}
    try:
        with contextlib.redirect_stdout(sink), contextlib.redirect_stderr(sink):
            oC = vhdlFile.vhdlFile(list(lines), cla, path, err, oConfig)
            oC.set_indent_map(oConfig.dIndent)
            rlC = rule_list.rule_list(oC, oConfig.severity_list, None)
            apply_rules.configure_rules(oConfig, rlC, oConfig.dConfig, 0, path)
            rlC.check_rules(bAllPhases=True, lSkipPhase=cla.skip_phase)
            check_report = {x.unique_id: sorted({v.get_line_number() for v in x.violations}) for x in rlC.rules if x.violations}
            del oC, rlC
    except BaseException:  # noqa
        check_report = None
    untouched = {"state": check_report is not None, "quiet": []}  # the token list is still the one the plain check saw
    tf = open(job["trace_path"], "w")
    tf.write("I " + ab.enc(o.lAllObjects) + "\n")
    cur = {"rule": None, "edits": None, "updates": 0}
    vcls = type(o)
    orig_update = vcls.update

    def update(self, lUpdates, bUpdateMap):
        if self is o and cur["rule"] is not None and len(lUpdates) > 0:
            cur["updates"] += 1
            ed = cur["edits"]
            for u in lUpdates:
                new = [t for t in u.get_tokens() if not isinstance(t, parser.beginning_of_file)]
                ed.append((u.oTokens.iStartIndex, u.oTokens.iEndIndex, u.get_line_number(), new))
        return orig_update(self, lUpdates, bUpdateMap)

    vcls.update = update
    idx = {id(r): i for i, r in enumerate(rl.rules)}
    records = out["records"]

    def wrap_fix(r):
        orig = r.fix

        def fix(oFile, dFixOnly=None):
            L = o.lAllObjects
            b_list = list(L)
            b_ids = list(map(id, L))
            b_vals = [t.value for t in L]
            b_ind = [t.indent for t in L]
            cur["rule"], cur["edits"], cur["updates"] = r, [], 0
            try:
                return orig(oFile, dFixOnly)
            finally:
                cur["rule"] = None
                L2 = o.lAllObjects
                changed = cur["updates"] > 0 or len(L2) != len(b_ids) or list(map(id, L2)) != b_ids or [t.value for t in L2] != b_vals
                if len(L2) == len(b_ids) and cur["updates"] == 0 and [t.indent for t in L2] != b_ind and r.unique_id not in out.setdefault("indent_writers", []):
                    out["indent_writers"].append(r.unique_id)  # a rule that rewrites indent levels of tokens it does not replace
                if untouched["state"]:
                    rep = check_report.get(r.unique_id)
                    if changed:
                        untouched["state"] = False
                        out["first_changer"] = {"rule": r.unique_id, "check_lines": rep or [], "fix_lines": sorted({ln for _, _, ln, _ in cur["edits"]})}
                    elif rep and r.fixable and not r.disable and r.severity.type == severity.error_type:
                        untouched["quiet"].append({"rule": r.unique_id, "check_lines": rep[:20]})
                if changed and "shared_token_object" not in out and len(set(map(id, L2))) != len(L2):
                    seen_, dup_ = set(), None
                    for t_ in L2:
                        if id(t_) in seen_:
                            dup_ = t_
                            break
                        seen_.add(id(t_))
                    out["shared_token_object"] = {"rule": r.unique_id, "class": type(dup_).__module__.replace("vsg.", "") + "." + type(dup_).__name__}
                if changed:
                    cur["last_changer"] = r.unique_id
                    ed = cur["edits"]
                    tag = str(len(records))
                    tf.write("R %s %s %d %s\n" % (tag, ab.digest(L2), len(ed), " ".join("%d %d %d %s" % (s, e, ln, ab.enc(new)) for s, e, ln, new in ed)))
                    ins, dele = role_delta(ab, b_list, ed)
                    records.append({"rule": r.unique_id, "lines": [ln for _, _, ln, _ in ed], "n_edits": len(ed), "updates": cur["updates"], "unsorted": any(ed[i][0] > ed[i + 1][0] for i in range(len(ed) - 1)),
                                    "ins": ins, "del": dele, "spans": [(s_, e_) for s_, e_, _, _ in ed][:40]})

        r.fix = fix

    def wrap_toi(r):
        orig = r._get_tokens_of_interest

        def g(oFile):
            L = o.lAllObjects
            if job.get("probe_index", True):
                try:
                    if o.oTokenMap.dMap != token_map.process_tokens(L).dMap:
                        out["c18"].append({"rule": r.unique_id, "what": "index differs from recompute", "after": cur.get("last_changer")})
                except Exception as e:
                    out["c18"].append({"rule": r.unique_id, "what": "index probe raised " + type(e).__name__})
            res = orig(oFile)
            try:
                for toi in res or []:
                    if not isinstance(toi, extract_tokens.New):
                        continue  # some rules hand _analyze other structures (dictionaries of lines): not regions of interest
                    toks = [t for t in toi.get_tokens() if not isinstance(t, parser.beginning_of_file)]
                    s = toi.iStartIndex
                    if s is None or s < 0 or s + len(toks) > len(L) or any(a is not b for a, b in zip(toks, L[s : s + len(toks)])):
                        out["c18"].append({"rule": r.unique_id, "what": "region of interest is not the slice at its recorded start", "start": s, "len": len(toks)})
                        break
            except Exception as e:
                out["c18"].append({"rule": r.unique_id, "what": "toi probe raised " + type(e).__name__})
            return res

        r._get_tokens_of_interest = g

    for r in rl.rules:
        wrap_fix(r)
        if hasattr(r, "_get_tokens_of_interest"):
            wrap_toi(r)
    # the normalisation after phase 1
    orig_fbl, orig_utm = vcls.fix_blank_lines, vcls.update_token_map
    state = {"pre_norm": False}

    def fbl(self):
        if self is o:
            tf.write("S 0 " + ab.enc(o.lAllObjects) + "\n")
            state["pre_norm"] = True
            state["digest"] = ab.digest(o.lAllObjects)
        return orig_fbl(self)

    def utm(self):
        if self is o and state["pre_norm"]:
            state["pre_norm"] = False
            tf.write("S 1 " + ab.enc(o.lAllObjects) + "\n")
            if state.get("digest") != ab.digest(o.lAllObjects):
                untouched["state"] = False  # the normalisers changed the list
        return orig_utm(self)

    vcls.fix_blank_lines, vcls.update_token_map = fbl, utm
    try:
        with contextlib.redirect_stdout(sink), contextlib.redirect_stderr(sink):
            try:
                rl.fix(7, cla.skip_phase, None)
            except BaseException as e:  # noqa
                out["status"] = "crash-fix"
                out["exception"] = exc_text(e)
                out["crash_rule"] = cur["rule"].unique_id if cur["rule"] is not None else None
    finally:
        vcls.update, vcls.fix_blank_lines, vcls.update_token_map = orig_update, orig_fbl, orig_utm
        tf.write("E " + ab.digest(o.lAllObjects) + "\n")
        tf.close()
    out["had_violations"] = bool(rl.had_violations)
    try:
        out["end_name_mismatch"] = end_names(o.lAllObjects, init_ids)[:6]
    except Exception as e:  # noqa
        out["end_name_mismatch"] = []
    out["quiet_reporters"] = untouched["quiet"][:30]
    if out["status"] != "ok":
        return out
    # ---- end-to-end facts
    try:
        with contextlib.redirect_stdout(sink), contextlib.redirect_stderr(sink):
            text1 = o.get_lines()[1:]
            out["text_changed"] = text1 != lines
            for r in rl.rules:  # drop the observers, the remaining calls are plain
                for n in ("fix", "_get_tokens_of_interest"):
                    r.__dict__.pop(n, None)
            rl.clear_violations()
            rl.check_rules(bAllPhases=True, lSkipPhase=cla.skip_phase)
            rep_mem = sorted(observe.violations_of(rl.rules))
            out["left_fixable"] = sorted({r.unique_id for r in rl.rules if r.violations and r.fixable and r.severity.type == severity.error_type and not r.disable})
            # C08: what was written is what would be read
            sig_mem = [(type(t).__module__ + "." + type(t).__name__, t.value, t.indent) for t in o.lAllObjects]
            try:
                o2 = vhdlFile.vhdlFile(text1, cla, path, None, oConfig)
                o2.set_indent_map(oConfig.dIndent)
                sig_re = [(type(t).__module__ + "." + type(t).__name__, t.value, t.indent) for t in o2.lAllObjects]
                if sig_re != sig_mem:
                    k = next((k for k, (a, b) in enumerate(zip(sig_re + [None], sig_mem + [None])) if a != b), -1)
                    out["reread_diff"] = {"index": k, "reread": sig_re[k] if 0 <= k < len(sig_re) else None, "memory": sig_mem[k] if 0 <= k < len(sig_mem) else None,
                                          "kind": "indent" if 0 <= k < min(len(sig_re), len(sig_mem)) and sig_re[k][:2] == sig_mem[k][:2] else "token"}
                rl2 = rule_list.rule_list(o2, oConfig.severity_list, None)
                apply_rules.configure_rules(oConfig, rl2, oConfig.dConfig, 0, path)
                rl2.check_rules(bAllPhases=True, lSkipPhase=cla.skip_phase)
                rep_re = sorted(observe.violations_of(rl2.rules))
                if rep_re != rep_mem:
                    import collections as _c

                    c_re, c_mem = _c.Counter(map(tuple, rep_re)), _c.Counter(map(tuple, rep_mem))  # multisets: a violation listed twice counts
                    extra = [list(v) for v in (c_re - c_mem).elements()][:3]
                    missing = [list(v) for v in (c_mem - c_re).elements()][:3]
                    out["report_diff"] = {"only_fresh": extra, "only_after_fix": missing}
                # C09: a second (and up to fifth) fix of the written text
                texts = [text1]
                cur_lines = text1
                for n in range(job.get("refix", 2)):
                    o3 = vhdlFile.vhdlFile(cur_lines, cla, path, None, oConfig)
                    o3.set_indent_map(oConfig.dIndent)
                    rl3 = rule_list.rule_list(o3, oConfig.severity_list, None)
                    apply_rules.configure_rules(oConfig, rl3, oConfig.dConfig, 0, path)
                    if n == 0:
                        # which rule is the first to edit the text VSG has just fixed
                        st3 = {"rule": None, "first": None}

                        def upd3(self, lUpdates, bUpdateMap, _o3=o3, _st=st3):
                            if self is _o3 and len(lUpdates) > 0 and _st["first"] is None:
                                _st["first"] = _st["rule"]
                            return orig_update(self, lUpdates, bUpdateMap)

                        def wrap3(r, _st=st3):
                            orig = r.fix

                            def fix(oFile, dFixOnly=None):
                                _st["rule"] = r.unique_id
                                return orig(oFile, dFixOnly)

                            r.fix = fix

                        for r3 in rl3.rules:
                            wrap3(r3)
                        vcls.update = upd3
                        try:
                            rl3.fix(7, cla.skip_phase, None)
                        finally:
                            vcls.update = orig_update
                        out["refix_first_editor"] = st3["first"]
                    else:
                        rl3.fix(7, cla.skip_phase, None)
                    nxt = o3.get_lines()[1:]
                    if nxt == cur_lines:
                        break
                    if nxt in texts:
                        out["refix_cycle"] = len(texts) - texts.index(nxt)
                        texts.append(nxt)
                        break
                    texts.append(nxt)
                    cur_lines = nxt
                out["refix_changes"] = len(texts) - 1
                if len(texts) > 1:
                    a, b = texts[0], texts[1]
                    k = next((k for k, (x, y) in enumerate(zip(a + [None], b + [None])) if x != y), -1)
                    out["refix_first_diff"] = {"line": k + 1, "first": a[k] if k < len(a) else None, "second": b[k] if k < len(b) else None}
            except ClassifyError as e:
                out["reread_rejected"] = str(getattr(e, "message", e))[:200]
            out["text_out"] = text1 if job.get("keep_text") else None
    except BaseException as e:  # noqa
        out["status"] = "crash-post"
        out["exception"] = exc_text(e)
    out["wall"] = round(time.time() - t0, 2)
    return out
