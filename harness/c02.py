# C02: comments, pragmas and preprocessor lines survive fixing verbatim
import json
import vlib, tracechecks as T


def evaluate(ck, data, rules, docg):
    n_same = n_removed = 0
    for o in T.runs(data):
        prev_cterm = True
        removers_fired = False
        for r in o["records"]:
            if "c02" not in r:
                continue
            rid = r["rule"]
            if r["c02"]:
                n_same += 1
            elif T.is_trailing_remover(rules, rid) and r["c02_rem"] and not r.get("c02_trail", True):
                ck.violation("edit-removes-own-line-comment:" + rid, "%s: %s is documented to remove trailing comments but removed a comment that stands on a line of its own" % (T.tag(o), rid), T.rep(o, r, oracle="edit"))
            elif T.is_remover(rules, rid) and r["c02_rem"]:
                n_removed += 1
                removers_fired = True
            else:
                ck.violation("edit-changes-comments:" + rid, "%s: %s %s a comment / pragma / preprocessor text" % (T.tag(o), rid, "removed" if r["c02_rem"] else "altered or reordered"), T.rep(o, r, oracle="edit"))
            if prev_cterm and not r["cterm"]:
                ck.violation("comment-not-terminated:" + rid, "%s: after %s a '--' comment is followed by something other than optional whitespace and a line break: it will absorb what follows" % (T.tag(o), rid), T.rep(o, r, oracle="cterm"))
            prev_cterm = r["cterm"]
        if o["status"] == "ok":
            ok = o.get("run_c02_eq") or (removers_fired and o.get("run_c02_sub"))
            if ok is False:
                ck.violation("run-changes-comments:" + (",".join(sorted({r["rule"] for r in o["records"] if not r.get("c02", True)})[:3]) or ",".join(sorted({r["rule"] for r in o["records"] if not r.get("wf", True)})[:3]) or "@" + o["rel"]), "%s: the comments after the run are not those before it" % T.tag(o), T.rep(o, oracle="run"))
    ck.sample({"edits_keeping_comments": n_same, "edits_by_allowed_removers": n_removed})
    return {"edits_keeping_comments": n_same, "edits_by_allowed_removers": n_removed}


def run(tier):
    return T.run_prop("C02", tier, "translation_validation", evaluate,
                      "every rule application that changed a file in the shared observed fix runs: comment / pragma / preprocessor texts of each replaced slice compared modulo the documented normalisations; allowed removers = rules derived from remove_comments_from_end_of_lines_bounded_by_tokens or multiline_structure; whole-run comparison; comment-termination invariant after every application",
                      ["cnorm collapses runs of blanks and drops the run after a leading '--' (the documented space / tab normalisations)", "comments are compared per replaced slice, so a comment moved between two slices of one rule application counts as altered"])


def replay(rp):
    return T.replay(rp)
