# C16: write-back is all-or-nothing and keeps the file's mode
import os, sys, json, shutil, tempfile, subprocess, stat, itertools
from multiprocessing import Pool
import vlib, corpus

STEPS = ["stat", "open", "write", "close", "chmod", "replace", "remove"]
CODE = {None: 0, "crash": 1, "crashmid": 2, "perm": 3, "oserr": 4, "oserrmid": 5}
ORIG = "library ieee;\nentity e is\nend entity e;\n"
FIXED_LINES = ["library ieee;", "", "entity E is", "", "end entity E;", "-- a longer fixed text " + "x" * 200]
FIXED = "\n".join(FIXED_LINES) + "\n"
STALE = "stale tmp content\n"
EXPECTED_TRACE = ["stat", "open", "write", "write", "close", "chmod", "replace", "remove"]


def schedules():
    out = [{}]
    for s in STEPS:
        for k in ("crash", "perm", "oserr"):
            out.append({s: k})
    out.append({"target_write": "crash"})   # only reached if the code ever opens the target itself for writing
    out.append({"target_write": "oserr"})
    out.append({"write": "crashmid"})
    out.append({"write": "oserrmid"})
    for s in STEPS[1:6]:
        for k in ["perm", "oserr"] + (["oserrmid"] if s == "write" else []):
            for kr in ("crash", "perm", "oserr"):
                out.append({s: k, "remove": kr})
    return out


def classify(text):
    if text == ORIG:
        return 1
    if text == FIXED:
        return 2
    if text == "":
        return 0
    if text == STALE:
        return 9
    if FIXED.startswith(text):
        return 3
    return -1


def _run(job):
    k, env, faults, tmpdir = job
    d = os.path.join(tmpdir, "s%d" % k)
    os.makedirs(d)
    fn = os.path.join(d, "t.vhd")
    try:
        with open(fn, "w") as f:
            f.write(ORIG)
        os.chmod(fn, env["mode"])
        if env["stale"] is not None:
            with open(fn + ".tmp", "w") as f:
                f.write(STALE)
            os.chmod(fn + ".tmp", env["stale"])
        sc = {"repo": vlib.REPO, "file": fn, "faults": faults, "fixed_lines": FIXED_LINES}

        def pre():
            os.umask(env["umask"])

        p = subprocess.run([vlib.PY, "-W", "ignore", os.path.join(vlib.VERIF, "harness", "wb_exec.py"), json.dumps(sc)], stdout=subprocess.PIPE, stderr=subprocess.PIPE, text=True, preexec_fn=pre, timeout=120,
                           env=vlib.repo_env())
        if p.returncode < 0:
            result, trace = "killed", None
        else:
            try:
                o = json.loads(p.stdout.strip().split("\n")[-1])
                result, trace = o["result"], o["trace"]
            except Exception:
                result, trace = "harness-error:" + p.stderr[-300:], None
        tgt = (classify(open(fn).read()), stat.S_IMODE(os.stat(fn).st_mode)) if os.path.exists(fn) else None
        tmp = (classify(open(fn + ".tmp").read()), stat.S_IMODE(os.stat(fn + ".tmp").st_mode)) if os.path.exists(fn + ".tmp") else None
        extra = sorted(x for x in os.listdir(d) if x not in ("t.vhd", "t.vhd.tmp"))
        return dict(k=k, env=env, faults=faults, result=result, trace=trace, target=tgt, tmp=tmp, extra=extra)
    finally:
        shutil.rmtree(d, ignore_errors=True)


def model_line(env, faults):
    defmode = 0o666 & ~env["umask"]
    return "%d %d %d %d -1 %s -1" % (env["mode"], 1 if env["stale"] is not None else 0, env["stale"] or 0, defmode, " ".join(str(CODE[faults.get(s)]) for s in STEPS))


def cli(args, cwd):
    p = subprocess.run(vlib.vsg_cmd() + args, cwd=cwd, env=vlib.repo_env(), stdout=subprocess.PIPE, stderr=subprocess.PIPE, text=True, timeout=900)
    return p.returncode, p.stdout, p.stderr


def snap(path):
    st = os.stat(path)
    return (open(path, "rb").read(), stat.S_IMODE(st.st_mode), st.st_ino, st.st_mtime_ns)


def check_cli(ck, tier):
    """rejected / misconfigured files are untouched; --backup is a faithful copy; mode survives a real --fix"""
    tmp = tempfile.mkdtemp(prefix="c16c_", dir=vlib.BUILD)
    n = 0
    try:
        src = os.path.join(vlib.REPO, "tests", "styles", "code_examples", "spi_slave.vhd")
        if not os.path.exists(src):
            src = corpus.sample(1, "c16")[0]
        for mode in (0o644, 0o664, 0o600, 0o755, 0o444):
            f = os.path.join(tmp, "m%o.vhd" % mode)
            shutil.copy(src, f)
            os.chmod(f, mode)
            before = snap(f)
            rc, so, se = cli(["-f", f, "--fix", "--backup", "-p", "1"], tmp)
            after = snap(f)
            n += 1
            if after[1] != mode:
                ck.violation("cli:mode-changed", "--fix changed the mode of a %o file to %o" % (mode, after[1]), {"kind": "input", "oracle": "mode", "mode": mode})
            if after[0] == before[0]:
                ck.notes.append("fixture not changed by --fix?")
            b = f + ".bak"
            if not os.path.exists(b) or open(b, "rb").read() != before[0] or stat.S_IMODE(os.stat(b).st_mode) != mode:
                ck.violation("cli:backup-not-faithful", "--backup of a %o file: copy missing or different" % mode, {"kind": "input", "oracle": "backup", "mode": mode})
            if os.path.exists(f + ".tmp"):
                ck.violation("cli:tmp-left", "temporary file left after a successful --fix", {"kind": "input"})
        # histories: a backup left by an earlier run, older / newer / as old as the file it now has to protect
        for k, (label, dt) in enumerate((("older", -100), ("same-age", 0), ("newer", 100))):
            f = os.path.join(tmp, "h%d.vhd" % k)
            shutil.copy(src, f)
            st = os.stat(f)
            with open(f + ".bak", "w") as fh:
                fh.write("-- backup of an earlier revision\n")
            os.utime(f + ".bak", ns=(st.st_atime_ns, st.st_mtime_ns + dt * 10 ** 9))
            before = snap(f)
            rc, so, se = cli(["-f", f, "--fix", "--backup", "-p", "1"], tmp)
            n += 1
            if snap(f)[0] != before[0] and open(f + ".bak", "rb").read() != before[0]:
                ck.violation("cli:backup-not-faithful:stale-backup-%s" % label, "--fix --backup rewrote the file but the backup (%s than the file before the run) does not hold the content the file had" % label, {"kind": "history", "oracle": "backup", "stale_backup": label})
        # rejected file, configuration error
        bad = os.path.join(tmp, "bad.vhd")
        open(bad, "w").write("entity e is\n  port (a : in std_logic\nend entity e;\narchitecture a of e is begin begin end;\n")
        good = os.path.join(tmp, "good.vhd")
        shutil.copy(src, good)
        cfg = os.path.join(tmp, "c.yaml")
        open(cfg, "w").write("rule:\n  no_such_rule_999:\n    disable: true\n")
        for name, args, f in (("rejected", ["-f", bad, "--fix", "--backup", "-p", "1"], bad), ("config-error", ["-f", good, "-c", cfg, "--fix", "-p", "1"], good)):
            before = snap(f)
            rc, so, se = cli(args, tmp)
            n += 1
            if snap(f) != before:
                ck.violation("cli:%s-file-modified" % name, "a %s file was modified by --fix" % name, {"kind": "input", "oracle": name})
            if rc != 1:
                ck.violation("cli:%s-exit" % name, "%s file: exit status %d" % (name, rc), {"kind": "input", "oracle": name})
    finally:
        shutil.rmtree(tmp, ignore_errors=True)
    return n


def run(tier):
    ck = vlib.Check("C16", tier, "proof")
    br = vlib.build()
    names, discharged, assumptions, broken = vlib.theorem_status("C16", br)
    ck.theorems(br, names, discharged, assumptions, broken)
    for b in broken:
        ck.broken_tie(b[:80], b)
    if not br.ocaml_ok:
        ck.broken_tie("build:ocaml", br.ocaml_log[-500:])
        return ck.finish()
    envs = []
    modes = [0o644, 0o664, 0o600, 0o755] if tier == "thorough" else [0o640, 0o664]
    for m in modes:
        for um in (0o022, 0o077):
            for st in ([None, 0o600, 0o666] if tier == "thorough" else [None, 0o666]):
                envs.append({"mode": m, "umask": um, "stale": st})
    sch = schedules()
    tmp = tempfile.mkdtemp(prefix="c16_", dir=vlib.BUILD)
    jobs = [(k, e, f, tmp) for k, (e, f) in enumerate(itertools.product(envs, sch))]
    try:
        with Pool(vlib.NCPU) as p:
            res = p.map(_run, jobs, chunksize=4)
    finally:
        shutil.rmtree(tmp, ignore_errors=True)
    model = vlib.run_model("wb", [model_line(o["env"], o["faults"]) for o in res])
    diffs = 0
    trace_bad = None
    for o, m in zip(res, model):
        mt, mtmp, mr = m.split()
        real_t = "%d:%d" % o["target"] if o["target"] else "-"
        real_tmp = "%d:%d" % o["tmp"] if o["tmp"] else "-"
        rr = "killed" if o["result"] == "killed" else ("returned" if o["result"] == "returned" else "raised")
        rep = {"kind": "fault-schedule", "env": o["env"], "faults": o["faults"], "observed": {"target": real_t, "tmp": real_tmp, "result": o["result"]}, "model": m}
        # the property itself, on the real outcome alone
        okc = o["target"] is not None and o["target"][0] in (1, 2)
        okm = o["target"] is not None and o["target"][1] == o["env"]["mode"]
        desc = "mode %o umask %o stale tmp %s faults %r" % (o["env"]["mode"], o["env"]["umask"], o["env"]["stale"] and oct(o["env"]["stale"]), o["faults"])
        if not okc:
            ck.violation("writeback:content-not-atomic", "%s: target holds neither the original nor the complete fixed text" % desc, rep)
        elif not okm:
            ck.violation("writeback:mode-changed", "%s: target mode is %o" % (desc, o["target"][1]), rep)
        elif o["result"] != "killed" and o["faults"].get("remove") is None and o["faults"].get("stat") is None and o["tmp"] is not None:
            ck.violation("writeback:tmp-left", "%s: temporary file left behind although the process survived" % desc, rep)
        elif o["extra"]:
            ck.violation("writeback:stray-file", "%s: stray files %r" % (desc, o["extra"]), rep)
        elif (mt, mtmp, mr) != (real_t, real_tmp, rr):
            diffs += 1
            ck.broken_tie("T2:write_vhdl_file~WriteBack.write_vhdl_file", "%s: model %s, implementation %s %s %s" % (desc, m, real_t, real_tmp, rr))
        if not o["faults"] and o["trace"] is not None and o["trace"] != EXPECTED_TRACE and trace_bad is None:
            trace_bad = o["trace"]
    if trace_bad is not None:
        ck.broken_tie("T2:write_vhdl_file-step-sequence", "the fault-free run performs %r, the model's steps are %r" % (trace_bad, EXPECTED_TRACE))
    ncli = check_cli(ck, tier)
    ck.cov.update({"environments": len(envs), "schedules_per_environment": len(sch), "fault_runs": len(jobs), "model_vs_impl_diffs": diffs, "cli_runs": ncli,
                   "killed_runs": len([o for o in res if o["result"] == "killed"]), "exhaustive": True,
                   "exhaustive_over": "all single faults (3 kinds x 7 OS calls + 2 mid-write) and all (fault in try) x (fault in the finally-remove) pairs, per environment"})
    ck.sample({"env": res[5]["env"], "faults": res[5]["faults"], "observed": {"target": res[5]["target"], "tmp": res[5]["tmp"], "result": res[5]["result"]}, "model": model[5]})
    ck.sample({"env": res[-1]["env"], "faults": res[-1]["faults"], "observed": {"target": res[-1]["target"], "tmp": res[-1]["tmp"], "result": res[-1]["result"]}, "model": model[-1]})
    ck.cov["evaluations"] = len(jobs) + ncli
    ck.cov["distinct_nontrivial"] = len([o for o in res if o["faults"]])
    ck.cov["rule"] = "fault schedule x environment (original mode, umask, stale .tmp file); each run is the real write_vhdl_file in a subprocess under an OS-call shim (real SIGKILL for crashes); non-trivial = at least one fault injected"
    ck.assumptions = ["os.replace is atomic (POSIX rename)", "a killed process leaves the file system as the completed calls left it (no torn metadata)"]
    return ck.finish()


def replay(rp):
    print(json.dumps(rp, indent=1))
    if rp.get("kind") == "fault-schedule":
        tmp = tempfile.mkdtemp(prefix="c16r_", dir=vlib.BUILD)
        try:
            print(_run((0, rp["env"], rp["faults"], tmp)))
        finally:
            shutil.rmtree(tmp, ignore_errors=True)
    return 0
