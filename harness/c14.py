# C14: exit status and every report format tell the same story
import os, sys, json, re, shutil, tempfile, subprocess
import xml.etree.ElementTree as ET
from multiprocessing import Pool
import vlib, corpus

BAD = "entity e is\n  port (a : in std_logic\nend entity e;\narchitecture a of e is begin begin end;\n"


def run_cli(args, cwd):
    p = subprocess.run(vlib.vsg_cmd() + args, cwd=cwd, env=vlib.repo_env(), stdout=subprocess.PIPE, stderr=subprocess.PIPE, text=True, timeout=1800)
    return p.returncode, p.stdout, p.stderr


def parse_vsg_stdout(text):
    """-> {file: {stop, checked, total, counts{name:n}, rows[(rule, sev, line, solution)]}}"""
    out = {}
    cur = None
    lines = text.split("\n")
    i = 0
    while i < len(lines):
        l = lines[i]
        if l.startswith("File:  ") and i > 0 and lines[i - 1].startswith("====="):
            cur = {"counts": {}, "rows": []}
            out[l[7:]] = cur
        elif cur is not None:
            m = re.match(r"Phase (\d+) of 7\.\.\. Reporting", l)
            if m:
                cur["stop"] = int(m.group(1))
            m = re.match(r"Total Rules Checked: (\d+)", l)
            if m:
                cur["checked"] = int(m.group(1))
            m = re.match(r"Total Violations:\s+(\d+)", l)
            if m:
                cur["total"] = int(m.group(1))
            m = re.match(r"  (\S.*?)\s*:\s+(\d+)$", l)
            if m and "total" in cur and not cur["rows"] and "|" not in l:
                cur["counts"][m.group(1).strip()] = int(m.group(2))
            if l.startswith("  ") and l.count(" | ") >= 3 and not l.lstrip().startswith("Rule "):
                a, b, c, d = l[2:].split(" | ", 3)
                cur["rows"].append((a.strip(), b.strip(), int(c.strip()), d))
        i += 1
    return out


def _case(job):
    k, files, cfg_text, tmpdir, sevtypes = job
    d = os.path.join(tmpdir, "c%d" % k)
    os.makedirs(d)
    names = []
    for j, src in enumerate(files):
        n = "f%d.vhd" % j
        if src == "BAD":
            open(os.path.join(d, n), "w").write(BAD)
        else:
            shutil.copy(src, os.path.join(d, n))
        names.append(n)
    open(os.path.join(d, "c.yaml"), "w").write(cfg_text)
    res = {"k": k, "files": files, "cfg": cfg_text, "names": names}
    try:
        for ap in (False, True):
            tag = "ap" if ap else "gated"
            base = ["-f"] + names + ["-c", "c.yaml", "-p", "1"] + (["-ap"] if ap else [])
            rc, so, se = run_cli(base + ["-of", "vsg", "--json", "j.json", "--junit", "j.xml", "--quality_report", "q.json"], d)
            r = {"rc": rc, "stdout": so, "stderr": se}
            try:
                r["json"] = json.load(open(os.path.join(d, "j.json")))
            except Exception as e:
                r["json"] = None
            try:
                r["quality"] = json.load(open(os.path.join(d, "q.json")))
            except Exception:
                r["quality"] = None
            try:
                root = ET.parse(os.path.join(d, "j.xml")).getroot()
                ju = {}
                for tc in root.iter("testcase"):
                    txt = []
                    for fl in tc.iter("failure"):
                        txt += [x.strip() for x in (fl.text or "").split("\n") if x.strip()]
                    ju[tc.get("name")] = txt
                r["junit"] = ju
                r["junit_failures_attr"] = int(root.get("failures")) if root.tag == "testsuite" else int(next(root.iter("testsuite")).get("failures"))
            except Exception as e:
                r["junit"] = None
                r["junit_err"] = repr(e)
            for f in ("j.json", "j.xml", "q.json"):
                try:
                    os.unlink(os.path.join(d, f))
                except OSError:
                    pass
            rc2, so2, se2 = run_cli(base + ["-of", "syntastic"], d)
            r["syntastic"] = {"rc": rc2, "stdout": so2, "stderr": se2}
            rc3, so3, se3 = run_cli(base + ["-of", "summary"], d)
            r["summary"] = {"rc": rc3, "stdout": so3, "stderr": se3}
            res[tag] = r
    finally:
        shutil.rmtree(d, ignore_errors=True)
    return res


def gen_cfg(r, ids, groups):
    import yaml

    sev = {}
    names = []
    if r.random() < 0.7:
        for nm, ty in r.sample([("Guideline", "warning"), ("Critical", "error"), ("Blocker", "error"), ("Hint", "warning"), ("Err", "error")], r.randint(1, 3)):
            sev[nm] = {"type": ty}
            names.append(nm)
    allnames = ["Error", "Warning"] + names
    rule = {}
    for _ in range(r.randint(0, 8)):
        rule.setdefault(r.choice(ids), {})["severity"] = r.choice(allnames)
    if r.random() < 0.6:
        rule.setdefault("group", {})[r.choice(groups)] = {"severity": r.choice(allnames)}
    if r.random() < 0.3:
        rule["global"] = {"severity": r.choice(allnames)}
    cfg = {"rule": rule}
    if sev:
        cfg["severity"] = sev
    types = {"Error": "error", "Warning": "warning"}
    types.update({k: v["type"] for k, v in sev.items()})
    return yaml.safe_dump(cfg), types


def run(tier):
    import ruletable

    ck = vlib.Check("C14", tier, "proof")
    br = vlib.build()
    names, discharged, assumptions, broken = vlib.theorem_status("C14", br)
    ck.theorems(br, names, discharged, assumptions, broken)
    for b in broken:
        ck.broken_tie(b[:80], b)
    if not br.ocaml_ok:
        ck.broken_tie("build:ocaml", br.ocaml_log[-500:])
        return ck.finish()
    r = vlib.rng("c14")
    rt = [x for x in ruletable.load() if not x["deprecated"] and x["phase"]]
    ids = [x["id"] for x in rt]
    groups = sorted({g for x in rt for g in x["groups"]})
    pool = [f for f in corpus.files() if ("/rule_doc/" in f or "/styles/" in f or "test_input.vhd" in f) and os.path.getsize(f) < 5000]
    ncases = 80 if tier == "thorough" else 24
    tmp = tempfile.mkdtemp(prefix="c14_", dir=vlib.BUILD)
    jobs = []
    for k in range(ncases):
        files = r.sample(pool, r.randint(1, 4))
        if r.random() < 0.4:
            files.insert(r.randint(0, len(files)), "BAD")
        cfg, types = gen_cfg(r, ids, groups) if k else ("rule: {}\n", {"Error": "error", "Warning": "warning"})
        jobs.append((k, files, cfg, tmp, types))
    try:
        with Pool(vlib.NCPU) as p:
            res = p.map(_case, jobs, chunksize=1)
    finally:
        shutil.rmtree(tmp, ignore_errors=True)
    nfiles = nrows = nonbuiltin = 0
    crashed = []
    for o, job in zip(res, jobs):
        types = job[4]
        sevnames = list(types.keys())  # severity_list order: built-ins, then configuration order
        for tag in ("gated", "ap"):
            x = o[tag]
            rep = {"kind": "input", "files": [f if f == "BAD" else os.path.relpath(f, vlib.REPO) for f in o["files"]], "config": o["cfg"], "all_phases": tag == "ap"}
            where = "case %d (%s)" % (o["k"], tag)

            def bad(key, what):
                ck.violation("report:" + key, where + ": " + what, rep)

            if x["json"] is None and "Traceback (most recent call last)" in x["stderr"]:
                crashed.append(where)  # an unhandled exception is C19's subject; nothing to compare here
                continue
            if x["json"] is None:
                bad("no-json", "no JSON written; stderr %r" % x["stderr"][-300:])
                continue
            vs = parse_vsg_stdout(x["stdout"])
            any_error = False
            processing_error = False
            qi = 0
            qual = x["quality"] or []
            synt = [l for l in x["syntastic"]["stdout"].split("\n") if l.startswith(("ERROR: ", "WARNING: "))]
            synt_expected = []
            summ_out = x["summary"]["stdout"].split("\n")
            summ_err = x["summary"]["stderr"].split("\n")
            for name, fe in zip([n for n in o["names"]], x["json"]["files"] + [None] * 10):
                if fe is None:
                    break
                nfiles += 1
                if fe.get("file_path") != name:
                    bad("json-order", "JSON entry %r where %r was expected (command-line order)" % (fe.get("file_path"), name))
                    break
                rows = fe["violations"]
                if name not in vs:
                    # rejected file: one located message on stderr, no table
                    processing_error = True
                    if ("Error while processing " + name) not in x["stderr"]:
                        bad("rejected-file-silent", "%s has no table and no error message" % name)
                    continue
                # model input: rows grouped by rule in JSON order
                groups_ = []
                for i, v in enumerate(rows):
                    if v["severity"] not in types:
                        bad("unknown-severity", "%s: severity %r not in the severity list" % (name, v["severity"]))
                    if not groups_ or groups_[-1][0] != v["rule"]:
                        groups_.append((v["rule"], []))
                    groups_[-1][1].append((int(v["linenumber"]), sevnames.index(v["severity"]) if v["severity"] in sevnames else 0, 1 if types.get(v["severity"]) == "error" else 0, i))
                enc = "%d -1 " % len(sevnames) + " ".join(" ".join("%d %d %d %d" % t for t in g[1]) + " -1" for g in groups_)
                m = vlib.run_model("report", [enc])[0].split(" | ")
                order = [int(t) for t in m[0].split()]
                total = int(m[1])
                counts = [int(t) for t in m[2].split()]
                jun = [int(t) for t in m[3].split()]
                status, ok = int(m[4]), int(m[5])
                nrows += len(rows)
                nonbuiltin += sum(1 for v in rows if v["severity"] not in ("Error", "Warning"))
                any_error = any_error or bool(status)
                t = vs[name]
                exp_rows = [(rows[i]["rule"], rows[i]["severity"], int(rows[i]["linenumber"]), rows[i]["solution"]) for i in order]
                if t["rows"] != exp_rows:
                    bad("table-differs-from-json", "%s: standard output lists %d rows, JSON %d; first difference %r vs %r" % (name, len(t["rows"]), len(exp_rows), next(((a, b) for a, b in zip(t["rows"] + [None], exp_rows + [None]) if a != b), None), None))
                if t.get("total") != total or t.get("total") != len(t["rows"]):
                    bad("total-count", "%s: 'Total Violations' %r, rows listed %d, model %d" % (name, t.get("total"), len(t["rows"]), total))
                exp_counts = {n: c for n, c in zip(sevnames, counts)}
                if t["counts"] != exp_counts:
                    bad("severity-counts", "%s: printed counts %r, rows give %r" % (name, t["counts"], exp_counts))
                # junit
                exp_j = ["%s: %d : %s" % (rows[i]["rule"], int(rows[i]["linenumber"]), rows[i]["solution"]) for i in jun]
                got_j = (x["junit"] or {}).get(name)
                if got_j is None or [ET_unescape(s) for s in got_j] != [" ".join(s.split()) for s in exp_j] and got_j != exp_j:
                    if got_j is None or sorted(" ".join(s.split()) for s in got_j) != sorted(" ".join(s.split()) for s in exp_j):
                        bad("junit-differs", "%s: JUnit lists %r, error-type rows are %r" % (name, (got_j or [])[:3], exp_j[:3]))
                # quality report: every row, in JSON order
                for v in rows:
                    q = qual[qi] if qi < len(qual) else None
                    qi += 1
                    if q is None or q["description"] != v["rule"] + " :: " + v["solution"] or q["location"]["path"] != name or int(q["location"]["lines"]["begin"]) != int(v["linenumber"]):
                        bad("quality-report-differs", "%s: quality report entry %r for violation %r" % (name, q, v))
                        break
                for i in order:
                    v = rows[i]
                    synt_expected.append("%s: %s(%d)%s -- %s" % ("ERROR" if types.get(v["severity"]) == "error" else "WARNING", name, int(v["linenumber"]), v["rule"], v["solution"]))
                # summary verdict
                line_ok = [l for l in summ_out if l.startswith("File: %s " % name)]
                line_err = [l for l in summ_err if l.startswith("File: %s " % name)]
                verdict = "OK" if line_ok and " OK (" in line_ok[0] else ("ERROR" if line_err and " ERROR (" in line_err[0] else "?")
                if verdict != ("OK" if ok else "ERROR"):
                    bad("summary-verdict", "%s: summary says %s (stdout %r stderr %r) but %s error-type violation is reported" % (name, verdict, line_ok[:1], line_err[:1], "no" if ok else "an"))
                sl = (line_ok + line_err + [""])[0]
                for n, c in exp_counts.items():
                    if "[%s: %d]" % (n, c) not in sl:
                        bad("summary-counts", "%s: summary %r lacks [%s: %d]" % (name, sl, n, c))
                        break
            if qi != len(qual):
                bad("quality-report-extra", "quality report has %d entries, JSON %d" % (len(qual), qi))
            if synt != synt_expected:
                bad("syntastic-differs", "syntastic lists %d rows, expected %d; first difference %r" % (len(synt), len(synt_expected), next(((a, b) for a, b in zip(synt + [None], synt_expected + [None]) if a != b), None)))
            exp_rc = 1 if (any_error or processing_error) else 0
            for fmt, rc in (("vsg", x["rc"]), ("syntastic", x["syntastic"]["rc"]), ("summary", x["summary"]["rc"])):
                if rc != exp_rc:
                    bad("exit-status", "exit status %d with -of %s, but error-type violation reported: %s, file failed to parse: %s" % (rc, fmt, any_error, processing_error))
        ck.sample({"files": [f if f == "BAD" else os.path.relpath(f, vlib.REPO) for f in o["files"]], "config": o["cfg"], "exit": o["gated"]["rc"]}, limit=3)
    ck.cov.update({"cli_cases": len(jobs), "cli_runs": len(jobs) * 6, "file_reports_compared": nfiles, "violation_rows": nrows, "rows_with_user_defined_severity": nonbuiltin, "runs_skipped_because_vsg_crashed": len(crashed)})
    ck.cov["evaluations"] = nfiles
    ck.cov["distinct_nontrivial"] = len([1 for o in res if any((o[t]["json"] or {"files": []})["files"] for t in ("gated", "ap"))])
    ck.cov["rule"] = "batches of 1-4 corpus files (+ a rejected file in 40%) x random configuration with user-defined error / warning severities at rule, group and global level x {gated, -ap} x {vsg+json+junit+quality, syntastic, summary}; non-trivial = the batch reports at least one file"
    ck.assumptions = ["the JSON file is used as the carrier of the violation set; the other five artefacts and the exit status are predicted from it by the extracted model"]
    return ck.finish()


def ET_unescape(s):
    return " ".join(s.split())


def replay(rp):
    print(json.dumps(rp, indent=1)[:3000])
    return 0
