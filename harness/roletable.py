# token classes (roles) of the tree under test, with the kind VSG's own isinstance tests give them (T1)
import os, sys, json, subprocess
import vlib

_SCRIPT = r'''
import sys, json, pkgutil, importlib, inspect
import vsg.token, vsg.parser as parser
from vsg.token import delimited_comment, pragma
mods = [parser]
for m in pkgutil.walk_packages(vsg.token.__path__, "vsg.token."):
    mods.append(importlib.import_module(m.name))
rows = {}
for m in mods:
    for name, c in inspect.getmembers(m, inspect.isclass):
        if c.__module__ != m.__name__ or not issubclass(c, parser.item):
            continue
        fq = c.__module__ + "." + c.__name__
        doc = (c.__doc__ or "").split()
        uid = None
        for i, w in enumerate(doc):
            if w == "unique_id" and i + 4 < len(doc) + 1:
                try: uid = doc[i + 2] + ":" + doc[i + 4]
                except IndexError: pass
        if issubclass(c, parser.carriage_return): kind = "cr"
        elif issubclass(c, parser.blank_line): kind = "blank"
        elif issubclass(c, parser.whitespace): kind = "ws"
        elif issubclass(c, delimited_comment.text): kind = "dtext"
        elif issubclass(c, parser.comment): kind = "comment"
        elif issubclass(c, parser.preprocessor): kind = "prep"
        elif issubclass(c, pragma.ignore): kind = "ignore"
        elif issubclass(c, parser.beginning_of_file): kind = "bof"
        else: kind = "code"
        rows[fq] = dict(name=fq, uid=uid, kind=kind, bases=[b.__module__ + "." + b.__name__ for b in c.__mro__[1:] if b.__module__.startswith("vsg")])
json.dump(sorted(rows.values(), key=lambda d: d["name"]), sys.stdout)
'''


def load(refresh=False):
    path = os.path.join(vlib.BUILD, "roletable_%s.json" % vlib.tree_hash(("vsg",)))
    if os.path.exists(path) and not refresh:
        return json.load(open(path))
    p = subprocess.run([vlib.PY, "-W", "ignore", "-c", _SCRIPT], env=vlib.repo_env(), stdout=subprocess.PIPE, stderr=subprocess.PIPE, text=True, timeout=300)
    if p.returncode != 0:
        raise RuntimeError("role table extraction failed: " + p.stderr[-800:])
    rows = json.loads(p.stdout)
    for i, r in enumerate(rows):
        r["id"] = i
    os.makedirs(vlib.BUILD, exist_ok=True)
    json.dump(rows, open(path, "w"))
    return rows


def index():
    return {r["name"]: r for r in load()}
