# C06: analysis is read-only, repeatable and rules do not interfere (pass C)
import os, io, json, contextlib
from multiprocessing import Pool
import vlib, corpus, trace


def _sig(o):
    return [(type(t), t.value) for t in o.lAllObjects]


def _attrs(o):
    return [(t.indent, t.hierarchy, tuple(t.code_tags), getattr(t, "iId", None), getattr(t, "has_tab", None), getattr(t, "is_block_comment", None), getattr(t, "block_comment_indent", None)) for t in o.lAllObjects]


def _one(job):
    vlib.alarm(900)
    try:
        return _one_inner(job)
    except vlib.WorkerHang:
        return {"path": job[0], "status": "ok", "problems": [("hang", "checking the file did not finish within 900 s")], "writers": []}
    finally:
        vlib.alarm(0)


def _one_inner(job):
    import random, observe
    from vsg import config, rule_list, vhdlFile, apply_rules
    from vsg.vhdlFile import utils as vu
    from vsg.exceptions import ClassifyError

    path, seed, per_rule = job[:3]
    enable_all = len(job) > 3 and job[3]  # the rules that are switched off by default are switched on (about 80 of them)
    r = random.Random("%s/%s" % (seed, path))
    out = {"path": path, "status": "ok", "problems": [], "writers": [], "enable_all": bool(enable_all)}
    sink = io.StringIO()

    def fresh(disabled=(), shuffle=False):
        cla = observe.parse_args(["-f", path])
        oConfig = config.New(cla)
        lines, err = vu.read_vhdlfile(path)
        o = vhdlFile.vhdlFile(lines, cla, path, err, oConfig)
        o.set_indent_map(oConfig.dIndent)
        rl = rule_list.rule_list(o, oConfig.severity_list, None)
        apply_rules.configure_rules(oConfig, rl, oConfig.dConfig, 0, path)
        for x in rl.rules:
            if enable_all and x.disable and not getattr(x, "deprecated", False):
                x.disable = False
            if x.unique_id in disabled:
                x.disable = True
        if shuffle:
            r.shuffle(rl.rules)
        return o, rl

    def report(rl):
        d = {}
        for x in rl.rules:
            if x.violations:
                d[x.unique_id] = sorted((v.get_line_number(), v.get_solution()) for v in x.violations)
        return d

    try:
        with contextlib.redirect_stdout(sink), contextlib.redirect_stderr(sink):
            try:
                o, rl = fresh()
            except ClassifyError:
                out["status"] = "rejected"
                return out
            s0, a0, t0 = _sig(o), _attrs(o), o.get_lines()
            if per_rule:
                for x in rl.rules:
                    orig = x.analyze

                    def an(oFile, orig=orig, x=x):
                        b = (_sig(o), _attrs(o))
                        res = orig(oFile)
                        a = (_sig(o), _attrs(o))
                        if a != b:
                            what = "text/class"
                            if a[0] == b[0]:
                                # which attributes: bookkeeping of the block comment rules is told apart from indent / hierarchy / code tags
                                names = ("indent", "hierarchy", "code_tags", "iId", "has_tab", "is_block_comment", "block_comment_indent")
                                ch = sorted({names[k] for p_, q_ in zip(b[1], a[1]) if p_ != q_ for k in range(len(names)) if p_[k] != q_[k]})
                                what = "attributes" if ch == ["indent"] else "attributes(" + "+".join(ch) + ")"
                            out["writers"].append({"rule": x.unique_id, "what": what})
                        return res

                    x.analyze = an
            rl.check_rules(bAllPhases=True)
            v1 = report(rl)
            if _sig(o) != s0 or o.get_lines() != t0:
                out["problems"].append(("check-alters-file", "checking altered the text or the class of a token"))
            attrs_changed = _attrs(o) != a0
            rl.clear_violations()
            rl.check_rules(bAllPhases=True)
            v2 = report(rl)
            if v2 != v1:
                k = next(k for k in sorted(set(v1) | set(v2)) if v1.get(k) != v2.get(k))
                out["problems"].append(("repeat-differs:" + k, "a repeated check reports %r for %s, the first %r" % (v2.get(k, [])[:3], k, v1.get(k, [])[:3])))
            out["n_viol"] = sum(len(x) for x in v1.values())
            ids = sorted(v1)
            allids = [x.unique_id for x in rl.rules if not x.disable]
            for trial in range(3):
                D = set(r.sample(ids, min(len(ids), r.randint(1, 6))) + r.sample(allids, 40))
                o2, rl2 = fresh(disabled=D)
                rl2.check_rules(bAllPhases=True)
                vd = report(rl2)
                exp = {k: v for k, v in v1.items() if k not in D}
                if vd != exp:
                    k = next(k for k in sorted(set(vd) | set(exp)) if vd.get(k) != exp.get(k))
                    out["problems"].append(("disable-changes-other-rule:" + k, "with %d rules disabled %s reports %r instead of %r" % (len(D), k, vd.get(k, [])[:3], exp.get(k, [])[:3])))
            # the same rule list object used again: disable a set, check, enable it again, check (a history, not a fresh load)
            D = set(r.sample(ids, min(len(ids), r.randint(1, 6))) + r.sample(allids, 40))
            was = {x.unique_id: x.disable for x in rl.rules}
            for x in rl.rules:
                if x.unique_id in D:
                    x.disable = True
            rl.clear_violations()
            rl.check_rules(bAllPhases=True)
            vd = report(rl)
            exp = {k: v for k, v in v1.items() if k not in D}
            if vd != exp:
                k = next(k for k in sorted(set(vd) | set(exp)) if vd.get(k) != exp.get(k))
                out["problems"].append(("reuse-disable-differs:" + k, "after disabling %d rules on the rule list that has already checked the file, %s reports %r instead of %r" % (len(D), k, vd.get(k, [])[:3], exp.get(k, [])[:3])))
            for x in rl.rules:
                x.disable = was[x.unique_id]
            rl.clear_violations()
            rl.check_rules(bAllPhases=True)
            vr = report(rl)
            if vr != v1:
                k = next(k for k in sorted(set(vr) | set(v1)) if vr.get(k) != v1.get(k))
                out["problems"].append(("reuse-reenable-differs:" + k, "after enabling the rules again %s reports %r instead of %r" % (k, vr.get(k, [])[:3], v1.get(k, [])[:3])))
            o3, rl3 = fresh(shuffle=True)
            rl3.check_rules(bAllPhases=True)
            vs = report(rl3)
            if vs != v1:
                k = next(k for k in sorted(set(vs) | set(v1)) if vs.get(k) != v1.get(k))
                out["problems"].append(("order-changes-report:" + k, "with the rules analysed in another order inside their sub-phases %s reports %r instead of %r" % (k, vs.get(k, [])[:3], v1.get(k, [])[:3])))
            out["attrs_changed"] = attrs_changed
    except BaseException as e:  # noqa
        out["status"] = "crash"
        out["exception"] = repr(e)[:200]
    return out


def run(tier):
    ck = vlib.Check("C06", tier, "exploration")
    br = vlib.build()
    names, discharged, assumptions, broken = vlib.theorem_status("C06", br)
    ck.theorems(br, names, discharged, assumptions, broken)
    for b in broken:
        ck.broken_tie(b[:80], b)
    files = corpus.sample(400 if tier == "thorough" else 64, "c06", [f for f in corpus.files() if os.path.getsize(f) < 20000])
    jobs = [(f, vlib.seed(), i % (4 if tier == "thorough" else 8) == 0) for i, f in enumerate(files)]
    # the same with every default-disabled rule switched on, per-rule snapshots on (files with comments first: the
    # block comment, comment and naming rules are among them)
    rich = sorted(files, key=lambda f: -open(f, errors="replace").read().count("--"))[: (120 if tier == "thorough" else 12)]
    # ... and the fixtures of those rules themselves
    import glob as _glob, ruletable as _rt

    own = []
    for row in _rt.load():
        if row.get("disable") and not row.get("deprecated"):
            d_ = os.path.join(vlib.REPO, "tests", row["module"].split(".")[2])
            own += sorted(_glob.glob(os.path.join(d_, "rule_%s_test_input*.vhd" % row["identifier"]))) + sorted(_glob.glob(os.path.join(d_, "example*.vhd")))
    own = sorted(set(own))
    rich += own if tier == "thorough" else vlib.rng("c06own").sample(own, min(len(own), 24))
    jobs += [(f, vlib.seed(), True, True) for f in rich]
    with Pool(vlib.NCPU) as p:
        res = p.map(_one, jobs, chunksize=2)
    nv = 0
    for o in res:
        rel = os.path.relpath(o["path"], vlib.REPO)
        nv += o.get("n_viol", 0)
        for key, what in o["problems"]:
            ck.violation(key, "%s: %s" % (rel, what), {"kind": "input", "file": rel})
        for w in {(w["rule"], w["what"]) for w in o["writers"]}:
            ck.violation("analysis-writes:%s:%s" % (w[1], w[0]), "%s: %s.analyze modified the %s of tokens" % (rel, w[0], "text / class" if w[1] == "text/class" else "attributes (indent, hierarchy, code tags, ...)"), {"kind": "input", "file": rel, "rule": w[0]})
    ck.cov.update({"files": len(files), "files_with_per_rule_snapshots": len([j for j in jobs if j[2]]), "violations_reported_in_first_checks": nv,
                   "status": {s: len([o for o in res if o["status"] == s]) for s in {o["status"] for o in res}}, "runs_per_file": 6})
    ck.sample({"file": os.path.relpath(res[0]["path"], vlib.REPO), "violations": res[0].get("n_viol"), "problems": res[0]["problems"][:2]})
    ck.cov["evaluations"] = len(files) * 6
    ck.cov["distinct_nontrivial"] = len([o for o in res if o.get("n_viol")])
    ck.cov["rule"] = "corpus file: all-phases check, text / token-class snapshot around it, repeated check, 3 random disabled sets (rules that report on the file + 40 others) compared with the first report minus those rules, once more on the rule list object that has already checked the file (disable, check, enable again, check), one run with the rule list shuffled (order inside every sub-phase changes); per-rule snapshots around analyze on a subset; non-trivial = the file has violations"
    ck.assumptions = ["partial: the scheduler theorems (closed form, disable-exact) are proved with analyses taken as functions of the rule; that no analysis writes to the file is explored, not proved"]
    return ck.finish()


def replay(rp):
    print(json.dumps(rp, indent=1))
    return 0
