# C07: a rule's fix touches exactly the lines that rule reported
import json
import vlib, tracechecks as T


def evaluate(ck, data, rules, docg):
    n = exact = noop = 0
    for o in T.runs(data):
        for r in o["records"]:
            nl = r.get("n_lines")
            if "changed" not in r:
                continue
            rid = r["rule"]
            g = T.group_of(rules, docg, rid)
            if g not in T.C07_GROUPS:
                continue
            rep_lines = sorted(set(r["lines"]))
            ch = sorted(set(r["changed"]))
            if not ch and r["same_count"]:
                noop += 1  # the rule handed edits to update for the lines it reported and no line changed
                if rep_lines:
                    opts = (o.get("label") or {}).get("options") or o.get("derived_options") or {}
                    oc = ",".join("%s=%s" % (k_, json.dumps(v_, default=str)) for k_, v_ in sorted(opts.items()) if k_ != "disable")[:60]
                    ck.violation("reported-lines-not-changed:%s%s" % (oc + ":" if oc else "", rid), "%s: %s reported lines %r and its fix changed no line at all" % (T.tag(o), rid, rep_lines[:8]), T.rep(o, r, changed=ch))
                continue
            n += 1
            if not r["same_count"]:
                ck.violation("line-count-changed:" + rid, "%s: %s (%s) changed the number of lines" % (T.tag(o), rid, g), T.rep(o, r, changed=ch))
            elif rep_lines != ch:
                ck.violation("changed-lines-differ-from-reported:%s" % rid, "%s: %s reported lines %r but its fix changed lines %r" % (T.tag(o), rid, rep_lines[:8], ch[:8]), T.rep(o, r, changed=ch))
            else:
                exact += 1
            if nl and any(l < 1 or l > nl for l in rep_lines):
                ck.violation("reported-line-outside-file:" + rid, "%s: %s reported line(s) %r in a file of %d lines" % (T.tag(o), rid, [l for l in rep_lines if l < 1 or l > nl][:4], nl), T.rep(o, r))
    # the report of a plain check of the same input vs what the fix run does while the token list is still the input's
    n_first = n_first_ok = n_quiet = 0
    for o in T.runs(data):
        if o["status"] != "ok":
            continue
        fc = o.get("first_changer")
        if fc and T.group_of(rules, docg, fc["rule"]) in T.C07_GROUPS:
            n_first += 1
            if sorted(set(fc["check_lines"])) == sorted(set(fc["fix_lines"])):
                n_first_ok += 1
            else:
                ck.violation("check-report-differs-from-fix:" + fc["rule"], "%s: a plain check reports %s on lines %r but --fix, on the same token list, repairs lines %r" % (T.tag(o), fc["rule"], fc["check_lines"][:8], fc["fix_lines"][:8]), T.rep(o, oracle="check-vs-fix", detail=fc))
        for q in o.get("quiet_reporters", []):
            if T.group_of(rules, docg, q["rule"]) in T.C07_GROUPS:
                n_quiet += 1
                ck.violation("reported-but-fix-changes-nothing:" + q["rule"], "%s: a plain check reports %s on lines %r (fixable, error severity) but its fix, on the same token list, changes nothing" % (T.tag(o), q["rule"], q["check_lines"][:8]), T.rep(o, oracle="check-vs-fix", detail=q))
    ck.sample({"applications_checked": n, "exact": exact, "first_changers_compared_with_plain_check": n_first, "equal": n_first_ok})
    return {"applications_checked": n, "changed_equals_reported": exact, "first_changers_compared_with_plain_check": n_first, "plain_check_equals_fix": n_first_ok, "reported_but_untouched": n_quiet, "applications_that_changed_nothing": noop, "evaluations": n}


def run(tier):
    return T.run_prop("C07", tier, "translation_validation", evaluate,
                      "every application of a whitespace / indent / alignment / case rule that changed a file in the shared observed fix runs: lines whose text differs (computed by the extracted checker on its own reconstruction) vs the line numbers of the violations handed to update; plus, per run, the all-phases report of a plain check of the same input compared with what the fix run does while the token list is still the input's (the first rule that changes the file: check lines = repaired lines; fixable error-severity rules that report in the check but change nothing)",
                      ["the reported line of a violation is violation.get_line_number() at update time", "blank-line (vertical spacing) and structure rules are outside the property"])


def replay(rp):
    return T.replay(rp)
