# C18: the token index and every rule's region of interest mirror the token list
import json, os
from multiprocessing import Pool
import vlib, tracechecks as T


def evaluate(ck, data, rules, docg):
    n = probes = 0
    for o in T.runs(data):
        for x in o.get("c18", []):
            n += 1
            if "index" in x["what"]:
                ck.violation("index-stale-after:%s" % (x.get("after") or "parse"), "%s: when %s obtained its tokens of interest the index differed from a recompute; the last rule that changed the token list was %s" % (T.tag(o), x["rule"], x.get("after")), T.rep(o, None, rule=x["rule"], detail=x))
            else:
                ck.violation("toi-not-a-slice:%s" % x["rule"], "%s: when %s obtained its tokens of interest: %s" % (T.tag(o), x["rule"], x["what"]), T.rep(o, None, rule=x["rule"], detail=x))
        sh = o.get("shared_token_object")
        if sh:
            n += 1
            ck.violation("token-object-shared:%s" % sh["rule"], "%s: after %s the same %s object stands at two positions of the token list: an index entry or a region of interest can no longer name one position, and what is written to one (code tags, indent) shows at the other" % (T.tag(o), sh["rule"], sh["class"]), T.rep(o, None, rule=sh["rule"], detail=sh))
    ck.sample({"c18_probe_findings": n})
    return {"probe_findings": n}


def _real_index(path):
    from vsg import vhdlFile, token_map
    from vsg.vhdlFile import utils as vu

    try:
        lines, err = vu.read_vhdlfile(path)
        o = vhdlFile.vhdlFile(lines)
        keys = [t.get_unique_id() for t in o.lAllObjects]
        return path, keys, o.oTokenMap.dMap
    except Exception as e:
        return path, None, None


def extra(ck, data, rules, docg):
    """T2: token_map.process_tokens vs TokenMap.index (extracted), on corpus files"""
    import corpus

    br_ok = os.path.exists(os.path.join(vlib.BUILD, "vsgmodel"))
    files = corpus.sample(60 if ck.tier == "thorough" else 16, "c18")
    with Pool(vlib.NCPU) as p:
        res = p.map(_real_index, files)
    lines, meta = [], []
    for path, keys, dmap in res:
        if keys is None:
            continue
        names = sorted({x for k in keys for x in k if x is not None} | {"logical_operator", "parser", "comma", "open_parenthesis"})
        nid = {s: i + 1 for i, s in enumerate(names)}
        qs = [(b, s) for b in dmap for s in dmap[b]]
        enc = "%d %d %d %d -1 " % (nid["logical_operator"], nid["parser"], nid["comma"], nid["open_parenthesis"])
        enc += " ".join("%d %d" % (nid.get(b, 0), nid.get(s, 0)) for b, s in keys) + " -1 " + " ".join("%d %d" % (nid[b], nid[s]) for b, s in qs) + " -1"
        lines.append(enc)
        meta.append((path, qs, dmap))
    out = vlib.run_model("index", lines) if lines else []
    diffs = nq = 0
    for (path, qs, dmap), m in zip(meta, out):
        got = [[int(x) for x in part.split()] for part in m.split(" | ")] if m else []
        for (b, s), g in zip(qs, got):
            nq += 1
            if g != dmap[b][s]:
                diffs += 1
                ck.broken_tie("T2:process_tokens~TokenMap.index", "%s key (%s, %s): model %r implementation %r" % (os.path.relpath(path, vlib.REPO), b, s, g[:6], dmap[b][s][:6]))
                break
    ck.cov["index_differential"] = {"files": len(meta), "keys_compared": nq, "diffs": diffs}


def run(tier):
    return T.run_prop("C18", tier, "translation_validation", evaluate,
                      "at every _get_tokens_of_interest of every rule in the shared observed fix runs: oTokenMap.dMap == process_tokens(list).dMap and every region of interest is, object for object, the slice at its recorded start; every update is replayed through the extracted update model; process_tokens vs the extracted index model on corpus files",
                      ["identity of Python objects is observed from outside /repo (instance-level wrappers)"], extra=extra)


def replay(rp):
    return T.replay(rp)
