# C20: --fix_only fixes what it lists and nothing else
import os, sys, json, shutil, tempfile
from multiprocessing import Pool
import vlib, corpus


# ---------------------------------------------------------------- T2: the filter itself
def _filter_cases(cases):
    from vsg import rule as rulemod

    class V:
        def __init__(self, n):
            self.n = n

        def get_line_number(self):
            return self.n

    out = []
    for d, fixable, uid, lines in cases:
        r = rulemod.Rule()
        r.unique_id = uid
        r.fixable = fixable
        r.violations = [V(n) for n in lines]
        try:
            if r.fixable:  # Rule.fix: the filter is only reached for fixable rules
                r._filter_out_fix_only_violations(d)
                out.append([v.n for v in r.violations])
            else:
                out.append([])
        except Exception as e:
            out.append("EXC " + type(e).__name__)
    return out


def gen_filter_cases(r, n):
    ids = ["r_%03d" % i for i in range(6)]
    cases = []
    for _ in range(n):
        lines = sorted(r.sample(range(1, 40), r.randint(0, 8)))
        if r.random() < 0.3:
            lines = lines + lines[:2]
        uid = r.choice(ids)
        k = r.random()
        if k < 0.1:
            d = None
        elif k < 0.15:
            d = {}
        elif k < 0.2:
            d = {"fix": {}}
        else:
            m = {}
            for rid in r.sample(ids, r.randint(0, 5)):
                sel = [r.randint(1, 40) for _ in range(r.randint(0, 5))]
                if r.random() < 0.25:
                    sel.insert(r.randint(0, len(sel)), "all")
                m[rid] = sel
            d = {"fix": {"rule": m}}
        cases.append((d, r.random() < 0.85, uid, lines))
    return cases, ids


def enc_filter(case, ids):
    d, fixable, uid, lines = case
    has = d is not None
    m = (d or {}).get("fix", {}).get("rule", {}) if has else {}
    parts = ["%d %d %d -1" % (1 if has else 0, 1 if fixable else 0, ids.index(uid)), " ".join(map(str, lines)) + " -1"]
    for rid, sel in m.items():
        parts.append("%d %s -1" % (ids.index(rid), " ".join("-5" if s == "all" else str(s) for s in sel)))
    return " ".join(parts)


# ---------------------------------------------------------------- CLI
def vsg(args, timeout=900):
    return vlib.sh(vlib.vsg_cmd() + args, env=vlib.repo_env(), timeout=timeout)


def rstrip_lines(text):
    return [l.rstrip() for l in text.split("\n")]


def _cli_case(job):
    src, tmpdir, k, seed = job
    import random, ruletable

    r = random.Random("%s/%d" % (seed, k))
    rt = ruletable.by_id()
    d = os.path.join(tmpdir, "j%d" % k)
    os.makedirs(d, exist_ok=True)
    res = {"src": src, "problems": [], "selected": 0}
    try:
        orig = open(src).read()
        f = os.path.join(d, "f.vhd")

        def fresh():
            with open(f, "w") as fh:
                fh.write(orig)
            return os.stat(f)

        fresh()
        jf = os.path.join(d, "r.json")
        vsg(["-f", f, "-ap", "--json", jf])
        try:
            viol = [v for fe in json.load(open(jf))["files"] for v in fe["violations"]]
        except Exception:
            res["skipped"] = "no report"
            return res
        # plain --fix
        fresh()
        vsg(["-f", f, "--fix"])
        plain = open(f).read()
        # (a) every rule listed with "all"
        fo = os.path.join(d, "fo.json")
        json.dump({"fix": {"rule": {rid: ["all"] for rid in rt}}}, open(fo, "w"))
        fresh()
        vsg(["-f", f, "--fix", "--fix_only", fo])
        if open(f).read() != plain:
            res["problems"].append(("all-is-not-plain-fix", "--fix_only listing every rule with 'all' differs from plain --fix", None))
        # (b) nothing listed
        for empty in ({"fix": {"rule": {}}}, {"fix": {}}):
            json.dump(empty, open(fo, "w"))
            st0 = fresh()
            vsg(["-f", f, "--fix", "--fix_only", fo])
            st1 = os.stat(f)
            if open(f).read() != orig or (st0.st_ino, st0.st_mtime_ns) != (st1.st_ino, st1.st_mtime_ns):
                res["problems"].append(("empty-selection-touches-file", "--fix_only %r modified the file" % (empty,), None))
        # (c) one line-local rule on a subset of its lines
        cand = {}
        for v in viol:
            row = rt.get(v["rule"])
            if row and row["fixable"] and row["sev_type"] == "error" and row["phase"] in (2, 6) and ("case" in row["groups"] or "whitespace" in row["groups"]):
                cand.setdefault(v["rule"], set()).add(int(v["linenumber"]))
        for rid in sorted(cand)[:]:
            if len(res["problems"]) > 3:
                break
            lines = sorted(cand[rid])
            sel = sorted(r.sample(lines, max(1, len(lines) // 2)))
            # a second rule that is listed but for a line where it reports nothing, and unrelated ids
            json.dump({"fix": {"rule": {rid: sel, "entity_001": [9999]}}}, open(fo, "w"))
            fresh()
            vsg(["-f", f, "--fix", "--fix_only", fo])
            got = open(f).read()
            a, b = rstrip_lines(orig), rstrip_lines(got)
            res["selected"] += 1
            if len(a) != len(b):
                res["problems"].append(("line-count-changed:" + rid, "%s on lines %r: line count %d -> %d" % (rid, sel, len(a), len(b)), {"rule": rid, "lines": sel}))
                continue
            changed = [i + 1 for i, (x, y) in enumerate(zip(a, b)) if x != y]
            outside = [l for l in changed if l not in sel]
            if outside:
                res["problems"].append(("unlisted-line-changed:" + rid, "%s listed for lines %r but lines %r changed too" % (rid, sel, outside), {"rule": rid, "lines": sel}))
            elif "case" in rt[rid]["groups"] and sorted(changed) != sel:
                res["problems"].append(("listed-line-not-fixed:" + rid, "%s listed for lines %r but only %r changed" % (rid, sel, changed), {"rule": rid, "lines": sel}))
        # (d) several line-local rules listed together, each with all of its lines: what is listed gets repaired
        multi = sorted(cand)
        if len(multi) >= 2 and len(res["problems"]) <= 3:
            pick = sorted(r.sample(multi, min(len(multi), 4)))
            sel = {rid: sorted(cand[rid]) for rid in pick}
            json.dump({"fix": {"rule": sel}}, open(fo, "w"))
            fresh()
            vsg(["-f", f, "--fix", "--fix_only", fo])
            got = open(f).read()
            res["selected"] += 1
            if len(rstrip_lines(orig)) == len(rstrip_lines(got)):
                vsg(["-f", f, "-ap", "--json", jf])
                try:
                    left = {(v["rule"], int(v["linenumber"])) for fe in json.load(open(jf))["files"] for v in fe["violations"]}
                except Exception:
                    left = set()
                still = sorted((rid, l) for rid in pick for l in sel[rid] if (rid, l) in left)
                if still:
                    res["problems"].append(("listed-violation-not-repaired:" + still[0][0], "rules %r listed together with all their lines: %r still reported afterwards" % (pick, still[:4]), {"selection": sel}))
        res["rules_with_candidates"] = len(cand)
    finally:
        shutil.rmtree(d, ignore_errors=True)
    return res


def run(tier):
    ck = vlib.Check("C20", tier, "proof")
    br = vlib.build()
    names, discharged, assumptions, broken = vlib.theorem_status("C20", br)
    ck.theorems(br, names, discharged, assumptions, broken)
    for b in broken:
        ck.broken_tie(b[:80], b)
    r = vlib.rng("c20")
    # T2 on the filter
    nf = 20000 if tier == "thorough" else 4000
    cases, ids = gen_filter_cases(r, nf)
    with Pool(1) as p:
        real = p.apply(_filter_cases, (cases,))
    diffs = nontriv = 0
    if br.ocaml_ok:
        model = vlib.run_model("fixonly", [enc_filter(c, ids) for c in cases])
        for c, m, x in zip(cases, model, real):
            mm = [int(v) for v in m.split()]
            if 0 < len(mm) < len(c[3]):
                nontriv += 1
            if mm != x:
                diffs += 1
                # the property's own oracle on the implementation alone: kept = violations of a listed rule on a listed line
                d, fixable, uid, lines = c
                sel = None if d is None else (d.get("fix", {}).get("rule", {}) or {}).get(uid, [])
                spec = [] if not fixable else (lines if sel is None or "all" in sel else [n for n in lines if n in sel])
                if x != spec:
                    ck.violation("fix_only:filter-keeps-wrong-violations", "Rule._filter_out_fix_only_violations with %r for rule %s on violations at lines %r keeps %r; listed lines give %r" % (d, uid, lines, x, spec),
                                 {"kind": "input", "oracle": "filter", "dict": d, "rule": uid, "fixable": fixable, "lines": lines})
                    continue
                ck.broken_tie("T2:_filter_out_fix_only_violations~Phases.filter_fix_only", "dict %r rule %s fixable %s lines %r: model %r implementation %r" % (c[0], c[2], c[1], c[3], mm, x))
    else:
        ck.broken_tie("build:ocaml", br.ocaml_log[-500:])
    ck.cov["filter_differential"] = {"cases": len(cases), "partial_selections": nontriv, "diffs": diffs}
    ck.sample({"filter_case": {"dict": cases[-1][0], "rule": cases[-1][2], "lines": cases[-1][3]}, "kept": real[-1]})
    # CLI
    pool = [f for f in corpus.files() if ("/rule_doc/" in f or "/styles/" in f or "test_input.vhd" in f) and os.path.getsize(f) < 8000]
    nfiles = 60 if tier == "thorough" else 16
    files = r.sample(pool, nfiles)
    tmp = tempfile.mkdtemp(prefix="c20_", dir=vlib.BUILD)
    try:
        with Pool(vlib.NCPU) as p:
            res = p.map(_cli_case, [(f, tmp, k, vlib.seed()) for k, f in enumerate(files)], chunksize=1)
    finally:
        shutil.rmtree(tmp, ignore_errors=True)
    nsel = 0
    for o in res:
        rel = os.path.relpath(o["src"], vlib.REPO)
        nsel += o.get("selected", 0)
        for key, what, extra in o["problems"]:
            ck.violation("fix_only:" + key, "%s: %s" % (rel, what), {"kind": "input", "file": rel, "selection": extra})
    ck.cov["cli"] = {"files": len(files), "single_rule_selections": nsel, "skipped": len([o for o in res if "skipped" in o])}
    ck.sample({"cli_file": os.path.relpath(res[0]["src"], vlib.REPO), "selections": res[0].get("selected")})
    ck.cov["evaluations"] = len(cases) + len(files) * 4 + nsel
    ck.cov["distinct_nontrivial"] = nontriv + nsel
    ck.cov["rule"] = "filter: random fix_only dictionaries (missing keys, 'all', duplicate lines, unfixable rules); CLI: every-rule-all vs plain --fix, empty selections, one case/whitespace rule on half of its reported lines; non-trivial = a proper non-empty subset of the violations is selected"
    ck.assumptions = ["line-local = rules of groups case / whitespace in phases 6 / 2"]
    return ck.finish()


def replay(rp):
    print(json.dumps(rp, indent=1))
    if rp.get("oracle") == "filter":
        with Pool(1) as p:
            print("implementation keeps", p.apply(_filter_cases, ([(rp["dict"], rp["fixable"], rp["rule"], rp["lines"])],)))
    return 0
