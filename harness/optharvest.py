# Documented option values, harvested on every run from (1) the repository's own rule tests (oRule.<attr> = <literal>
# before analyze / fix), (2) the YAML / JSON examples in docs/*.rst, (3) the value forms the documentation tables list.
import os, re, ast, json, glob
import vlib

# docs/configuring_whitespace_rules.rst, table "The number_of_spaces option can accept several values"
DOC_FORMS = {"number_of_spaces": [0, 1, 2, ">0", ">=0", ">=1", ">1", ">=2", "0+", "1+", "2+", "<1", "<2", "<=0", "<=1", "<=2"]}


# attributes every rule has; the tests set e.g. fixable = True on rules documented as unfixable to exercise code that
# users are told not to rely on - these are not option values of the rule
BASE_ATTRS = ("indent_style", "indent_size", "phase", "disable", "fixable", "severity", "user_error_message")


def from_tests(repo):
    out = {}  # (dir, NNN) -> list of dict attr->value
    for path in glob.glob(os.path.join(repo, "tests", "*", "test_rule_*.py")):
        m = re.search(r"tests/([^/]+)/test_rule_(\d+)", path)
        if not m:
            continue
        try:
            tree = ast.parse(open(path).read())
        except SyntaxError:
            continue
        for fn in ast.walk(tree):
            if not isinstance(fn, ast.FunctionDef) or not fn.name.startswith("test"):
                continue
            cur = {}
            for st in fn.body:
                if isinstance(st, ast.Assign) and len(st.targets) == 1 and isinstance(st.targets[0], ast.Attribute) and isinstance(st.targets[0].value, ast.Name) and st.targets[0].value.id == "oRule":
                    try:
                        cur[st.targets[0].attr] = ast.literal_eval(st.value)
                    except Exception:
                        pass
            if cur:
                out.setdefault((m.group(1), m.group(2)), [])
                if cur not in out[(m.group(1), m.group(2))]:
                    out[(m.group(1), m.group(2))].append(cur)
    return out


def from_docs(repo):
    import yaml

    found = []  # (rule id or 'group:<g>' or 'global', attr, value)
    for path in glob.glob(os.path.join(repo, "docs", "*.rst")):
        text = open(path).read()
        for m in re.finditer(r"\.\. code-block:: (yaml|json|text)\n\n((?:[ \t]+.*\n|\n)+)", text, re.I):
            block = m.group(2)
            if "rule" not in block:
                continue
            lines = block.split("\n")
            ind = min((len(l) - len(l.lstrip()) for l in lines if l.strip()), default=0)
            body = "\n".join(l[ind:] for l in lines)
            try:
                d = yaml.safe_load(body)
            except Exception:
                continue
            if not isinstance(d, dict) or not isinstance(d.get("rule"), dict):
                continue
            for rid, e in d["rule"].items():
                if isinstance(e, dict) and rid not in ("global", "group"):
                    for a, v in e.items():
                        found.append((rid, a, v))
    return found


def indent_configs(repo):
    """documented indentation configurations: the `indent:` YAML examples of docs/*.rst plus, for the two use-clause
    options of docs/configuring_use_clause_indenting.rst, the value forms its table lists (current, '+1')"""
    import yaml

    out = []
    for path in sorted(glob.glob(os.path.join(repo, "docs", "*.rst"))):
        text = open(path).read()
        for m in re.finditer(r"\.\. code-block:: yaml\n\n((?:[ \t]+.*\n|\n)+)", text, re.I):
            lines = m.group(1).split("\n")
            ind = min((len(l) - len(l.lstrip()) for l in lines if l.strip()), default=0)
            try:
                d = yaml.safe_load("\n".join(l[ind:] for l in lines))
            except Exception:
                continue
            if isinstance(d, dict) and isinstance(d.get("indent"), dict) and isinstance(d["indent"].get("tokens"), dict) and "group_name" not in d["indent"]["tokens"]:
                if d not in out:
                    out.append(d)
    for a in ("current", "+1"):
        for b in ("current", "+1"):
            d = {"indent": {"tokens": {"use_clause": {"keyword": {"token_after_library_clause": a, "token_if_no_matching_library_clause": b}}}}}
            if d not in out:
                out.append(d)
    return out


def load():
    """-> dict(per_rule={rule id: [ {attr: value}, ... ]}, by_option={attr: [values]})"""
    path = os.path.join(vlib.BUILD, "options_%s.json" % vlib.tree_hash(("vsg", "docs", "tests")))
    if os.path.exists(path):
        return json.load(open(path))
    import ruletable

    rt = ruletable.by_id()
    name_of = {}
    for rid, r in rt.items():
        name_of[(r["module"].split(".")[2], r["identifier"])] = rid
    per_rule = {}
    by_option = {}
    for (d, n), sets in from_tests(vlib.REPO).items():
        rid = name_of.get((d, n))
        if rid is None:
            continue
        for s in sets:
            s2 = {a: v for a, v in s.items() if a in rt[rid]["configuration"] and a not in BASE_ATTRS}
            if s2:
                per_rule.setdefault(rid, [])
                if s2 not in per_rule[rid]:
                    per_rule[rid].append(s2)
                for a, v in s2.items():
                    by_option.setdefault(a, [])
                    if v not in by_option[a]:
                        by_option[a].append(v)
    for rid, a, v in from_docs(vlib.REPO):
        by_option.setdefault(a, [])
        if v not in by_option[a]:
            by_option[a].append(v)
        if rid in rt and a in rt[rid]["configuration"] and a not in BASE_ATTRS:
            per_rule.setdefault(rid, [])
            if {a: v} not in per_rule[rid]:
                per_rule[rid].append({a: v})
    for a, vs in DOC_FORMS.items():
        by_option.setdefault(a, [])
        for v in vs:
            if v not in by_option[a]:
                by_option[a].append(v)
    data = {"per_rule": per_rule, "by_option": by_option}
    os.makedirs(vlib.BUILD, exist_ok=True)
    json.dump(data, open(path, "w"), default=repr)
    return data


def fixtures_for(rid, rt):
    r = rt[rid]
    d = r["module"].split(".")[2]
    base = os.path.join(vlib.REPO, "tests", d, "rule_%s_test_input" % r["identifier"])
    return sorted(glob.glob(base + "*.vhd"))
