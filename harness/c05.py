# C05: token classification does not depend on layout, comments or letter case
import os, io, re, json, ast, contextlib
from multiprocessing import Pool
import vlib, corpus

HOSTILE = " -- c ; is begin end ( then"


def lex(line):
    """(tokens, index of the first comment token or None) with VSG's own tokenizer"""
    from vsg import tokens

    t = tokens.create(line)
    ci = next((i for i, x in enumerate(t) if x.startswith("--")), None)
    return t, ci


def mutate(lines, kind, r):
    """meaning-preserving re-layouts of an accepted file (text level)"""
    out = []
    skip = False  # inside a delimited comment
    off = False  # inside a --vhdl_comp_off ... --vhdl_comp_on region: every token there is turned into pragma.ignore
    for n, line in enumerate(lines):
        if "vhdl_comp_off" in line:
            off = True
        if off:
            out.append(line)
            if "vhdl_comp_on" in line:
                off = False
            continue
        t, ci = lex(line)
        opens, closes = line.count("/*"), line.count("*/")
        plain = not skip and opens == 0 and closes == 0 and not line.lstrip().startswith("#") and "vsg_" not in line and "synthesis" not in line and "pragma" not in line and "vhdl_comp" not in line
        if opens > closes:
            skip = True
        elif closes > opens:
            skip = False
        if not plain or skip:
            out.append(line)
            continue
        code = t if ci is None else t[:ci]
        tail = "" if ci is None else "".join(t[ci:])
        if kind == "ws":
            code = [(" " * r.randint(1, 4)) if (x.isspace() and i > 0) else x for i, x in enumerate(code)]
            out.append("".join(code) + tail)
        elif kind == "split":
            parts, cur = [], ""
            for i, x in enumerate(code):
                if x.isspace() and i > 0 and cur.strip() and r.random() < 0.5:
                    parts.append(cur)
                    cur = "  "
                else:
                    cur += x
            parts.append(cur + tail)
            out.extend(parts)
        elif kind == "join":
            if out and r.random() < 0.5 and "--" not in out[-1] and out[-1].strip() and line.strip() and not out[-1].lstrip().startswith("#") and "/*" not in out[-1] and "*/" not in out[-1] and "vsg_" not in out[-1]:
                out[-1] = out[-1].rstrip() + " " + line.lstrip()
            else:
                out.append(line)
        elif kind == "comment":
            if r.random() < 0.3:
                out.append("  -- own line ; end process (")
            out.append(line + (HOSTILE if ci is None and line.strip() else ""))
        elif kind == "squeeze":
            # drop optional whitespace next to symbol tokens ("a <= b ;" -> "a<=b;"): never between two words
            def word(x):
                return x[:1].isalnum() or x[:1] in "_\\\"'"

            sq = []
            for i, x in enumerate(code):
                if x.isspace() and 0 < i < len(code) - 1 and not (word(code[i - 1][-1:]) and word(code[i + 1])) and code[i + 1] not in ("-", "+") and code[i - 1] not in ("-", "+") and r.random() < 0.7:
                    continue
                sq.append(x)
            out.append("".join(sq) + tail)
        elif kind == "case":
            f = r.choice([str.upper, str.lower, str.swapcase])
            code = [x if (x[:1] in "'\"\\" or x.isspace()) else f(x) for x in code]
            out.append("".join(code) + tail)
        else:
            out.append(line)
    return out


def roles_of(lines):
    from vsg import vhdlFile, parser
    from vsg.token import delimited_comment, pragma
    from vsg.exceptions import ClassifyError

    try:
        with contextlib.redirect_stdout(io.StringIO()):
            o = vhdlFile.vhdlFile(lines)
    except ClassifyError as e:
        return "rejected: " + str(getattr(e, "message", e))[:160]
    except Exception as e:
        return "crash: " + type(e).__name__
    out = []
    for t in o.lAllObjects:
        if isinstance(t, (parser.whitespace, parser.carriage_return, parser.blank_line, parser.comment, parser.preprocessor, delimited_comment.text, pragma.ignore)):
            continue
        out.append((type(t).__module__.replace("vsg.", "") + "." + type(t).__name__, t.get_value().lower() if t.get_value()[:1] not in "'\"\\" else t.get_value()))
    return out


def _case(job):
    vlib.alarm(900)
    try:
        return _case_inner(job)
    except vlib.WorkerHang:
        return {"path": job[0], "status": "ok", "problems": [("any", "hang", "reading the file or one of its re-layouts did not finish within 900 s", [])], "variants": 0, "tokens": 0}
    finally:
        vlib.alarm(0)


def _case_inner(job):
    import random

    path, seed, kinds = job
    r = random.Random("%s/%s" % (seed, path))
    try:
        lines = corpus.read_lines(path)
        if lines and lines[-1] == "":
            lines = lines[:-1]
    except Exception:
        return {"path": path, "status": "unreadable", "problems": []}
    base = roles_of(lines)
    if isinstance(base, str):
        return {"path": path, "status": base.split(":")[0], "problems": []}
    res = {"path": path, "status": "ok", "problems": [], "variants": 0, "tokens": len(base)}
    for kind in kinds:
        m = lines
        for k1 in kind.split("+"):
            m = mutate(m, k1, r)
        if m == lines:
            continue
        res["variants"] += 1
        got = roles_of(m)
        if isinstance(got, str):
            res["problems"].append((kind, got.split(":")[0], "the %s re-layout is %s" % (kind, got), m))
        elif got != base:
            k = next((k for k, (a, b) in enumerate(zip(got + [None], base + [None])) if a != b), -1)
            res["problems"].append((kind, "role-changed", "after the %s re-layout code token %d is %r, it was %r" % (kind, k, got[k] if k < len(got) else None, base[k] if k < len(base) else None), m))
    return res


# ------------------------------------------------------------------ static tie: how the classifier reads the list
PRIMS = {"find_next_token", "is_next_token", "is_next_token_one_of", "assign_next_token", "assign_next_token_required", "assign_next_token_if", "assign_next_token_if_not", "assign_token",
         "object_value_is", "token_is_open_parenthesis", "find_in_range", "find_in_next_n_tokens", "assign_tokens_until", "assign_next_tokens_until"}


def scan_classifier():
    """every subscript of the token list in vsg/vhdlFile/classify/*.py: through the cursor variable as returned by a
    navigation primitive, or a literal-offset neighbour access (listed). The count per file is the fingerprint."""
    d = os.path.join(vlib.REPO, "vsg", "vhdlFile", "classify")
    out = {}
    paths = [(f, os.path.join(d, f)) for f in sorted(os.listdir(d)) if f.endswith(".py")]
    paths += [("../utils.py", os.path.join(vlib.REPO, "vsg", "vhdlFile", "utils.py")), ("../vhdlFile.py", os.path.join(vlib.REPO, "vsg", "vhdlFile", "vhdlFile.py"))]
    for f, path in paths:
        tree = ast.parse(open(path).read())
        offs = []
        for n in ast.walk(tree):
            if isinstance(n, ast.Subscript) and isinstance(n.value, ast.Name) and n.value.id in ("lObjects", "lTokens", "lAllObjects"):
                s = n.slice
                if isinstance(s, ast.BinOp) and isinstance(s.right, ast.Constant):
                    offs.append("%s%s%s" % (ast.unparse(s.left), "+" if isinstance(s.op, ast.Add) else "-", s.right.value))
                elif isinstance(s, ast.Constant):
                    offs.append(str(s.value))
        if offs:
            out[f] = sorted(offs)
    return out


def run(tier):
    ck = vlib.Check("C05", tier, "exploration")
    br = vlib.build()
    names, discharged, assumptions, broken = vlib.theorem_status("C05", br)
    ck.theorems(br, names, discharged, assumptions, broken)
    for b in broken:
        ck.broken_tie(b[:80], b)
    files = corpus.minimised() + (corpus.files() if tier == "thorough" else corpus.sample(260, "c05"))
    kinds = ["ws", "split", "join", "comment", "case", "split+comment", "join+case", "split+case+comment"]
    with Pool(vlib.NCPU) as p:
        res = p.map(_case, [(f, vlib.seed(), kinds) for f in files], chunksize=4)
    nvar = 0
    for o in res:
        rel = os.path.relpath(o["path"], vlib.REPO)
        nvar += o.get("variants", 0)
        for kind, sig, what, text in o["problems"][:2]:
            ck.violation("relayout:%s:%s" % (kind, sig), "%s: %s" % (rel, what), {"kind": "input", "file": rel, "relayout": kind, "text": "\n".join(text)})
    # static tie
    audited_path = os.path.join(vlib.VERIF, "classifier_offsets.json")
    now = scan_classifier()
    audited = json.load(open(audited_path)) if os.path.exists(audited_path) else {}
    new = {f: [x for x in v if x not in audited.get(f, [])] for f, v in now.items()}
    new = {f: v for f, v in new.items() if v}
    if new:
        ck.broken_tie("static:classifier-direct-neighbour-access", "the classifier reads the token list at literal offsets that are not in the audited list: %r" % dict(list(new.items())[:4]))
    ck.cov.update({"files": len(files), "accepted": len([o for o in res if o["status"] == "ok"]), "relayout_variants_parsed": nvar, "relayout_kinds": kinds,
                   "classifier_files_with_literal_offset_access": len(now), "literal_offset_accesses": sum(len(v) for v in now.values())})
    ok = [o for o in res if o["status"] == "ok"]
    if ok:
        ck.sample({"file": os.path.relpath(ok[0]["path"], vlib.REPO), "code_tokens": ok[0]["tokens"], "variants": ok[0]["variants"]})
    ck.cov["evaluations"] = nvar
    ck.cov["distinct_nontrivial"] = len([o for o in ok if o.get("variants")])
    ck.cov["rule"] = "accepted corpus file x {whitespace resize, line split at whitespace, line join, hostile trailing / own-line comments, case change outside literals and extended identifiers}; lines inside delimited comments, pragmas, code tags and preprocessor lines are left alone; the class and folded value of every code token must be unchanged and the variant accepted"
    ck.assumptions = ["partial: the navigation theorems are about the cursor primitives; that the 8 300-line classifier only reads the list through them (plus the audited literal-offset accesses) is checked syntactically and sampled behaviourally, not proved"]
    return ck.finish()


def replay(rp):
    if "text" in rp:
        print(roles_of(rp["text"].split("\n")) if isinstance(roles_of(rp["text"].split("\n")), str) else "accepted")
    print({k: rp[k] for k in rp if k != "text"})
    return 0
