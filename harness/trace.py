# Shared cache of observed fix runs (pass A) + verdicts of the extracted checker. Consumed by C01, C02, C03, C07,
# C08, C09, C18, C19. Keyed by the content of /repo's vsg + docs, tier and seed; nothing lives under /tmp.
import os, sys, json, time, shutil, subprocess, hashlib
from multiprocessing import Pool
import vlib, corpus

CACHE = os.path.join(vlib.VERIF, "cache")
FLAGS = ["wf", "replay", "c01", "c01_strict", "paren", "lenpres", "c02", "c02_rem", "layout", "case", "ident", "same_count", "cterm", "wsadj", "kinds", "shape", "glue", "c02_trail"]


def machinery_hash():
    h = hashlib.sha256()
    for f in ["optional_roles.json", "harness/tracer.py", "harness/trace.py", "harness/observe.py", "ocaml/driver.ml"] + sorted("coq/" + x for x in os.listdir(os.path.join(vlib.VERIF, "coq")) if x.endswith(".v")):
        try:
            h.update(open(os.path.join(vlib.VERIF, f), "rb").read())
        except OSError:
            pass
    cm = os.path.join(vlib.VERIF, "corpus_min")
    for f in sorted(os.listdir(cm)) if os.path.isdir(cm) else []:
        h.update(f.encode() + open(os.path.join(cm, f), "rb").read())
    return h.hexdigest()[:8]


def key(tier):
    return "%s_%s_%s_%d%s" % (vlib.tree_hash(("vsg", "docs")), machinery_hash(), tier, vlib.seed(), "_" + os.environ["VERIF_ONLY_KIND"].replace(",", "-") if os.environ.get("VERIF_ONLY_KIND") else "")


def select(tier):
    """(path, argv) jobs on corpus files (kept for the passes that only need files)"""
    return [(j["path"], j["argv"]) for j in plan(tier) if j["kind"] == "corpus"]


def plan(tier):
    """the observed runs: corpus files x styles, per-rule documented option values on the rule's own fixtures,
    commented / dedented / squeezed variants of corpus files"""
    import optharvest, ruletable

    fs = corpus.files()
    r = vlib.rng("trace")
    ex = [f for f in fs if "/styles/code_examples/" in f or "/styles/" in f and f.count("/") < 6]
    inputs = [f for f in fs if f.endswith("test_input.vhd")]
    fixed = [f for f in fs if ".fixed" in os.path.basename(f)]
    rest = [f for f in fs if f not in set(inputs) and f not in set(fixed) and f not in set(ex)]
    jobs = []

    def add(path, argv=(), kind="corpus", **kw):
        jobs.append(dict(path=path, argv=list(argv), kind=kind, **kw))

    if tier == "thorough":
        for f in fs:
            add(f)
        for f in fs:
            add(f, ["--style", "jcl"])
        import random as _rnd

        for f in _rnd.Random("indent_only").sample(fs, 600):  # the same files for every seed: thorough covers every run quick can make
            add(f, ["--style", "indent_only"])
        import random as _rnd2

        var_files = sorted(set(inputs + ex)) + _rnd2.Random("fixed-variants").sample(sorted(fixed), min(len(fixed), 300))  # already-fixed files: later phases act first
        n_opt_rule, n_opt_gen = 10 ** 6, 10 ** 6
    else:
        pick = sorted(set(r.sample(inputs, 170) + r.sample(fixed, 40) + r.sample(rest, 30) + r.sample(ex, min(len(ex), 12))))
        for f in pick:
            add(f)
        for f in r.sample(pick, 70):
            add(f, ["--style", "jcl"])
        import random as _rnd2

        var_files = r.sample(inputs + ex, 50) + r.sample(_rnd2.Random("fixed-variants").sample(sorted(fixed), min(len(fixed), 300)), 12)
        n_opt_rule, n_opt_gen = 90, 90
    # documented option values
    oh = optharvest.load()
    rt = ruletable.by_id()
    opt_jobs = []
    for rid, sets in sorted(oh["per_rule"].items()):
        fx = [f for f in optharvest.fixtures_for(rid, rt) if f.endswith("test_input.vhd")]
        for s_ in sets:
            for f in fx[:1]:
                opt_jobs.append((f, rid, s_))
    gen_jobs = []
    for rid, row in sorted(rt.items()):
        if row["deprecated"] or not row["phase"]:
            continue
        fx = [f for f in optharvest.fixtures_for(rid, rt) if f.endswith("test_input.vhd")]
        if not fx:
            continue
        for a in row["configuration"]:
            if a in ("indent_style", "indent_size", "phase", "disable", "fixable", "severity", "user_error_message"):
                continue
            for v in oh["by_option"].get(a, []):
                gen_jobs.append((fx[0], rid, {a: v}))
    # prefix / suffix exceptions cut out of tokens the rule really targets (derived inside the worker)
    der = []
    for rid, row in sorted(rt.items()):
        if row["deprecated"] or not row["phase"] or "suffix_exceptions" not in row["configuration"]:
            continue
        fx = [f for f in optharvest.fixtures_for(rid, rt) if f.endswith("test_input.vhd")]
        if fx:
            der.append((fx[0], rid))
    n_der = len(der) if tier == "thorough" else int(os.environ.get("VERIF_NDER", "40"))
    for f, rid in (der if len(der) <= n_der else r.sample(der, n_der)):
        add(f, kind="derived", rule=rid)
    for f, rid in (der if tier == "thorough" else r.sample(der, min(len(der), n_der // 2))):
        if "prefix_exceptions" in rt[rid]["configuration"]:
            add(f, kind="derived", rule=rid, derive_mode="both")
            add(f, kind="derived", rule=rid, derive_mode="both_overlap")
    # rules that are switched off by default only run when the configuration switches them on
    off_jobs = []
    for rid, row in sorted(rt.items()):
        if row["disable"] and not row["deprecated"] and row["phase"]:
            fx = [f for f in optharvest.fixtures_for(rid, rt) if f.endswith("test_input.vhd")]
            for f in fx[:1]:
                off_jobs.append((f, rid, {}))
    n_off = len(off_jobs) if tier == "thorough" else 20
    for f, rid, s_ in (opt_jobs if len(opt_jobs) <= n_opt_rule else r.sample(opt_jobs, n_opt_rule)) + (gen_jobs if len(gen_jobs) <= n_opt_gen else r.sample(gen_jobs, n_opt_gen)) + (off_jobs if len(off_jobs) <= n_off else r.sample(off_jobs, n_off)):
        if rt[rid]["disable"]:
            s_ = dict(s_, disable=False)
        add(f, kind="option", rule=rid, options=s_)
    # documented indentation configurations on the style examples (library / use clauses, port clauses)
    icfgs = optharvest.indent_configs(vlib.REPO)
    ifiles = sorted(ex) if tier == "thorough" else r.sample(sorted(ex), min(len(ex), 8))
    for f in ifiles:
        for c in icfgs:
            add(f, kind="indentcfg", indent=c)
            add(f, kind="indentcfg", indent=c, variant="case")  # decisions of phase 4 that depend on spellings phase 6 normalises
    # documented global options (docs/configuring_indent_rules.rst): indentation style and size for every rule
    gfiles = (sorted(ex) + _rnd2.Random("global-options").sample(sorted(inputs), 200)) if tier == "thorough" else r.sample(sorted(ex), min(len(ex), 4)) + r.sample(sorted(inputs), 8)
    for f in gfiles:
        for g in ({"indent_style": "smart_tabs", "indent_size": 2}, {"indent_size": 4}):
            add(f, kind="option", rule="global", options=g)
    for f in var_files:
        for vk in ("comment0", "dedent", "squeeze", "dedent_squeeze", "case", "pragma0", "compoff0", "prep0"):
            add(f, kind="variant", variant=vk)
    # minimised corpus of inputs that failed before runs first (kept under /verif/corpus_min)
    cm = os.path.join(vlib.VERIF, "corpus_min")
    if os.path.isdir(cm):
        for f in sorted(os.listdir(cm)):
            if f.endswith(".vhd"):
                side = os.path.join(cm, f[:-4] + ".yaml")  # the configuration the input needs to show what it was kept for
                jobs.insert(0, dict(path=os.path.join(cm, f), argv=["-c", side] if os.path.exists(side) else [], kind="corpus"))
    if os.environ.get("VERIF_ONLY_KIND"):  # maintainer use: one family of runs only (part of the cache key through the seed string)
        if os.environ["VERIF_ONLY_KIND"] == "enabling":
            jobs = [j for j in jobs if j["kind"] == "option" and j["options"].get("disable") is False]
        else:
            jobs = [j for j in jobs if j["kind"] in os.environ["VERIF_ONLY_KIND"].split(",")]
    return jobs


def make_variant(lines, kind, r):
    """text-level, meaning-preserving variants that put comments and code where the fixtures never do"""
    import c05

    if kind == "comment0":
        out = []
        for i, l in enumerate(c05.mutate(lines, "none", r)):
            out.append(l)
        res, skip, off = [], False, False
        for n, line in enumerate(lines):
            if "vhdl_comp_off" in line:
                off = True
            opens, closes = line.count("/*"), line.count("*/")
            plain = not skip and not off and opens == 0 and closes == 0 and not line.lstrip().startswith("#") and "vsg_" not in line and "synthesis" not in line and "pragma" not in line
            if opens > closes:
                skip = True
            elif closes > opens:
                skip = False
            if off and "vhdl_comp_on" in line:
                off = False
            if plain and not skip and line.strip():
                k = r.random()
                if k < 0.35:
                    res.append("-- K%d own line, column 0" % n)
                elif k < 0.5:
                    res.append("    -- K%d own line, indented" % n)
                if "--" not in line and r.random() < 0.5:
                    line = line + " -- K%dt" % n
            res.append(line)
        return res
    if kind == "pragma0":
        # single-line pragmas (docs: pragma patterns "single") on lines of their own, in column 0 or indented
        res, skip, off = [], False, False
        for n, line in enumerate(lines):
            if "vhdl_comp_off" in line:
                off = True
            opens, closes = line.count("/*"), line.count("*/")
            plain = not skip and not off and opens == 0 and closes == 0 and not line.lstrip().startswith("#") and "vsg_" not in line and "synthesis" not in line and "pragma" not in line
            if opens > closes:
                skip = True
            elif closes > opens:
                skip = False
            if off and "vhdl_comp_on" in line:
                off = False
            if plain and not skip and line.strip():
                k = r.random()
                if k < 0.2:
                    res.append("-- pragma keep%d" % (n % 7))
                elif k < 0.35:
                    res.append("      -- synthesis attr%d" % (n % 5))
            res.append(line)
        return res
    if kind == "prep0":
        # preprocessor lines (docs: lines starting with '#') between lines, some followed by a blank line
        res, skip, off = [], False, False
        for n, line in enumerate(lines):
            if "vhdl_comp_off" in line:
                off = True
            opens, closes = line.count("/*"), line.count("*/")
            plain = not skip and not off and opens == 0 and closes == 0 and not line.lstrip().startswith("#") and "vsg_" not in line and "synthesis" not in line and "pragma" not in line
            if opens > closes:
                skip = True
            elif closes > opens:
                skip = False
            if off and "vhdl_comp_on" in line:
                off = False
            if plain and not skip and line.strip() and r.random() < 0.2:
                res.append(r.choice(["#if SIM%d" % n, "#endif", "#include \"defs%d.vh\"" % n, "  #define X%d" % n]))
                if r.random() < 0.5:
                    res.append("")
            res.append(line)
        return res
    if kind == "compoff0":
        # small --vhdl_comp_off ... --vhdl_comp_on regions between lines, some followed by a blank line
        res, skip, off = [], False, False
        for n, line in enumerate(lines):
            if "vhdl_comp_off" in line:
                off = True
            opens, closes = line.count("/*"), line.count("*/")
            plain = not skip and not off and opens == 0 and closes == 0 and not line.lstrip().startswith("#") and "vsg_" not in line and "synthesis" not in line and "pragma" not in line
            if opens > closes:
                skip = True
            elif closes > opens:
                skip = False
            if off and "vhdl_comp_on" in line:
                off = False
            if plain and not skip and line.strip() and r.random() < 0.15:
                res += ["--vhdl_comp_off", "  ; dbg%d : out not_vhdl (" % n, "--vhdl_comp_on"]
                if r.random() < 0.5:
                    res.append("")
            res.append(line)
        return res
    if kind == "case":
        return c05.mutate(lines, "case", r)  # per line: upper / lower / swapcase outside literals and extended identifiers
    if kind == "dedent":
        return [l.lstrip(" \t") if r.random() < 0.7 else l for l in lines]
    if kind == "squeeze":
        return c05.mutate(lines, "squeeze", r)
    if kind == "dedent_squeeze":
        return [l.lstrip(" \t") if r.random() < 0.7 else l for l in c05.mutate(lines, "squeeze", r)]
    return lines


class VsgHang(BaseException):
    pass


def _run(job):
    import tracer, signal

    def on_alarm(sig, frm):
        raise VsgHang("no result within the per-run time limit")

    # watchdog: a run that does not terminate is a finding of C19, not a check that never ends
    signal.signal(signal.SIGALRM, on_alarm)
    signal.alarm(int(os.environ.get("VERIF_JOB_TIMEOUT", "900")))
    try:
        return tracer.run_one(job)
    except VsgHang as e:
        return {"path": job["path"], "argv": job["argv"], "status": "hang", "exception": "VsgHang: " + str(e), "records": [], "c18": []}
    except BaseException as e:  # noqa
        return {"path": job["path"], "argv": job["argv"], "status": "harness-error", "exception": repr(e), "records": [], "c18": []}
    finally:
        signal.alarm(0)


def _check(tp):
    try:
        p = subprocess.run([os.path.join(vlib.BUILD, "vsgmodel"), "trace", tp], stdout=subprocess.PIPE, stderr=subprocess.PIPE, text=True, timeout=1800)
        return tp, p.returncode, p.stdout, p.stderr[-300:]
    except Exception as e:
        return tp, -1, "", repr(e)


def compute(tier, d):
    import roletable, ruletable

    import yaml

    roles = roletable.load()
    jobs = []
    r = vlib.rng("variants")
    for k, j in enumerate(plan(tier)):
        path, argv = j["path"], list(j["argv"])
        if j["kind"] == "option":
            cf = os.path.join(d, "o%05d.yaml" % k)
            with open(cf, "w") as fh:
                fh.write(yaml.safe_dump({"rule": {j["rule"]: j["options"]}}))
            argv += ["-c", cf]
        elif j["kind"] == "indentcfg":
            cf = os.path.join(d, "i%05d.yaml" % k)
            with open(cf, "w") as fh:
                fh.write(yaml.safe_dump(j["indent"]))
            argv += ["-c", cf]
        elif j["kind"] == "derived":
            pass
        if j.get("variant"):
            try:
                lines = corpus.read_lines(path)
            except Exception:
                continue
            if lines and lines[-1] == "":
                lines = lines[:-1]
            import random as _random

            v = make_variant(lines, j["variant"], _random.Random(j["variant"] + ":" + os.path.relpath(path, vlib.REPO)))  # the same variant of a file in every tier and seed
            if v == lines:
                continue
            path = os.path.join(d, "v%05d.vhd" % k)
            with open(path, "w", encoding="utf-8", errors="surrogateescape") as fh:
                fh.write("\n".join(v) + "\n")
        jobs.append({"path": path, "argv": argv, "trace_path": os.path.join(d, "t%05d.trace" % k), "roles": roles, "refix": 4 if tier == "thorough" else 2,
                     "label": {x: j[x] for x in j if x not in ("path", "argv")}, "source": j["path"], "keep_text": bool(j.get("variant")),
                     "derive": j.get("rule") if j["kind"] == "derived" else None, "derive_mode": j.get("derive_mode", "one"), "derive_cfg": os.path.join(d, "d%05d.yaml" % k)})
    t0 = time.time()
    with Pool(vlib.NCPU) as p:
        res = p.map(_run, jobs, chunksize=2)
    t1 = time.time()
    with Pool(vlib.NCPU) as p:
        chk = dict((tp, (rc, so, se)) for tp, rc, so, se in p.map(_check, [j["trace_path"] for j in jobs if os.path.exists(j["trace_path"])], chunksize=4))
    t2 = time.time()
    for j, o in zip(jobs, res):
        src = j.get("source", o["path"])
        o["rel"] = os.path.relpath(src, vlib.REPO) if src.startswith(vlib.REPO) else os.path.relpath(src, vlib.VERIF)
        lab = j.get("label", {})
        if lab.get("kind") == "derived":
            o["rel"] += " {%s: %s}" % (lab["rule"], json.dumps(o.get("derived_options"), default=repr))
            o["argv"] = [a for a in o["argv"] if not a.endswith(".yaml") and a != "-c"]
        elif lab.get("kind") == "option":
            o["rel"] += " {%s: %s}" % (lab["rule"], json.dumps(lab["options"], default=repr))
            o["argv"] = [a for a in o["argv"] if not a.endswith(".yaml") and a != "-c"]
        elif lab.get("kind") == "indentcfg":
            o["rel"] += " {indent: %s}" % json.dumps(lab["indent"]["indent"]["tokens"], sort_keys=True)
            o["argv"] = [a for a in o["argv"] if not a.endswith(".yaml") and a != "-c"]
        if lab.get("variant"):
            o["rel"] += " <%s variant>" % lab["variant"]
            try:
                o["variant_text"] = open(o["path"], errors="replace").read() if (o.get("records") is not None and (o["status"] != "ok" or o.get("reread_diff") or o.get("refix_changes") or o.get("reread_rejected"))) else None
            except OSError:
                pass
        o["label"] = lab
        c = chk.get(j["trace_path"])
        if c is None:
            continue
        rc, so, se = c
        if rc != 0:
            o["checker_error"] = se
            continue
        recs = o["records"]
        n_r = 0
        for line in so.split("\n"):
            p_ = line.split()
            if not p_:
                continue
            if p_[0] == "R":
                i = int(p_[1])
                n_r = i + 1
                bar = p_.index("|")
                for name, v in zip(FLAGS, p_[2:bar]):
                    recs[i][name] = v == "1"
                recs[i]["n_lines"] = int(p_[bar - 1])
                recs[i]["changed"] = [int(x) for x in p_[bar + 1 :]]
            elif p_[0] == "I":
                o["init_kinds_ok"] = p_[2] == "1"
                o["n_lines_init"] = int(p_[3])
                o["init_shape"], o["init_glue"] = p_[4] == "1", p_[5] == "1"
            elif p_[0] == "S":
                o.setdefault("sync", []).append((p_[1], p_[2] == "1"))
                o.setdefault("marks", []).append({"after_record": n_r, "norm": p_[1], "shape": p_[3] == "1", "glue": p_[4] == "1"})
            elif p_[0] == "E":
                o["end_ok"] = p_[1] == "1"
                o["run_c01"], o["run_c02_eq"], o["run_c02_sub"] = (p_[2] == "1", p_[3] == "1", p_[4] == "1")
                o["n_lines_final"] = int(p_[5])
                o["end_shape"], o["end_glue"] = p_[6] == "1", p_[7] == "1"
        try:
            os.unlink(j["trace_path"])
        except OSError:
            pass
    return {"jobs": len(jobs), "results": res, "wall_run": round(t1 - t0, 1), "wall_check": round(t2 - t1, 1), "rules": {r["id"]: {"groups": r["groups"], "phase": r["phase"], "fixable": r["fixable"], "mro": r["mro"], "remap": r["remap"]} for r in ruletable.load()}}


def get(tier):
    os.makedirs(CACHE, exist_ok=True)
    k = key(tier)
    d = os.path.join(CACHE, k)
    rf = os.path.join(d, "results.json")
    with vlib.Lock(".trace_%s.lock" % k):
        if os.path.exists(rf):
            return json.load(open(rf))
        # drop stale caches (other trees), keep disk use bounded
        for old in os.listdir(CACHE):
            if old != k:
                shutil.rmtree(os.path.join(CACHE, old), ignore_errors=True)
        os.makedirs(d, exist_ok=True)
        br = vlib.build()
        if not br.ocaml_ok:
            raise RuntimeError("model driver not built: " + br.ocaml_log[-300:])
        data = compute(tier, d)
        with open(rf + ".tmp", "w") as f:
            json.dump(data, f)
        os.replace(rf + ".tmp", rf)
        return data
