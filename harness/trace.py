# Shared cache of observed fix runs (pass A) + verdicts of the extracted checker. Consumed by C01, C02, C03, C07,
# C08, C09, C18, C19. Keyed by the content of /repo's vsg + docs, tier and seed; nothing lives under /tmp.
import os, sys, json, time, shutil, subprocess, hashlib
from multiprocessing import Pool
import vlib, corpus

CACHE = os.path.join(vlib.VERIF, "cache")
FLAGS = ["wf", "replay", "c01", "c01_strict", "paren", "lenpres", "c02", "c02_rem", "layout", "case", "ident", "same_count", "cterm", "wsadj", "kinds"]


def machinery_hash():
    h = hashlib.sha256()
    for f in ["optional_roles.json", "harness/tracer.py", "harness/trace.py", "harness/observe.py", "ocaml/driver.ml"] + sorted("coq/" + x for x in os.listdir(os.path.join(vlib.VERIF, "coq")) if x.endswith(".v")):
        try:
            h.update(open(os.path.join(vlib.VERIF, f), "rb").read())
        except OSError:
            pass
    return h.hexdigest()[:8]


def key(tier):
    return "%s_%s_%s_%d" % (vlib.tree_hash(("vsg", "docs")), machinery_hash(), tier, vlib.seed())


def select(tier):
    """(path, argv) jobs"""
    fs = corpus.files()
    r = vlib.rng("trace")
    ex = [f for f in fs if "/styles/code_examples/" in f or "/styles/" in f and f.count("/") < 6]
    inputs = [f for f in fs if f.endswith("test_input.vhd")]
    fixed = [f for f in fs if ".fixed" in os.path.basename(f)]
    rest = [f for f in fs if f not in set(inputs) and f not in set(fixed) and f not in set(ex)]
    jobs = []
    if tier == "thorough":
        for f in fs:
            jobs.append((f, []))
        for f in fs:
            jobs.append((f, ["--style", "jcl"]))
        for f in r.sample(fs, 600):
            jobs.append((f, ["--style", "indent_only"]))
    else:
        pick = r.sample(inputs, 170) + r.sample(fixed, 40) + r.sample(rest, 30) + r.sample(ex, min(len(ex), 12))
        for f in sorted(set(pick)):
            jobs.append((f, []))
        for f in r.sample(sorted(set(pick)), 70):
            jobs.append((f, ["--style", "jcl"]))
    # minimised corpus of inputs that failed before runs first (kept under /verif/corpus_min)
    cm = os.path.join(vlib.VERIF, "corpus_min")
    if os.path.isdir(cm):
        for f in sorted(os.listdir(cm)):
            if f.endswith(".vhd"):
                jobs.insert(0, (os.path.join(cm, f), []))
    return jobs


def _run(job):
    import tracer

    try:
        return tracer.run_one(job)
    except BaseException as e:  # noqa
        return {"path": job["path"], "argv": job["argv"], "status": "harness-error", "exception": repr(e), "records": [], "c18": []}


def _check(tp):
    try:
        p = subprocess.run([os.path.join(vlib.BUILD, "vsgmodel"), "trace", tp], stdout=subprocess.PIPE, stderr=subprocess.PIPE, text=True, timeout=1800)
        return tp, p.returncode, p.stdout, p.stderr[-300:]
    except Exception as e:
        return tp, -1, "", repr(e)


def compute(tier, d):
    import roletable, ruletable

    roles = roletable.load()
    jobs = []
    for k, (f, argv) in enumerate(select(tier)):
        jobs.append({"path": f, "argv": argv, "trace_path": os.path.join(d, "t%05d.trace" % k), "roles": roles, "refix": 4 if tier == "thorough" else 2})
    t0 = time.time()
    with Pool(vlib.NCPU) as p:
        res = p.map(_run, jobs, chunksize=2)
    t1 = time.time()
    with Pool(vlib.NCPU) as p:
        chk = dict((tp, (rc, so, se)) for tp, rc, so, se in p.map(_check, [j["trace_path"] for j in jobs if os.path.exists(j["trace_path"])], chunksize=4))
    t2 = time.time()
    for j, o in zip(jobs, res):
        o["rel"] = os.path.relpath(o["path"], vlib.REPO) if o["path"].startswith(vlib.REPO) else os.path.relpath(o["path"], vlib.VERIF)
        c = chk.get(j["trace_path"])
        if c is None:
            continue
        rc, so, se = c
        if rc != 0:
            o["checker_error"] = se
            continue
        recs = o["records"]
        for line in so.split("\n"):
            p_ = line.split()
            if not p_:
                continue
            if p_[0] == "R":
                i = int(p_[1])
                bar = p_.index("|")
                for name, v in zip(FLAGS, p_[2:bar]):
                    recs[i][name] = v == "1"
                recs[i]["n_lines"] = int(p_[bar - 1])
                recs[i]["changed"] = [int(x) for x in p_[bar + 1 :]]
            elif p_[0] == "I":
                o["init_kinds_ok"] = p_[2] == "1"
                o["n_lines_init"] = int(p_[3])
            elif p_[0] == "S":
                o.setdefault("sync", []).append((p_[1], p_[2] == "1"))
            elif p_[0] == "E":
                o["end_ok"] = p_[1] == "1"
                o["run_c01"], o["run_c02_eq"], o["run_c02_sub"] = (p_[2] == "1", p_[3] == "1", p_[4] == "1")
                o["n_lines_final"] = int(p_[5])
        try:
            os.unlink(j["trace_path"])
        except OSError:
            pass
    return {"jobs": len(jobs), "results": res, "wall_run": round(t1 - t0, 1), "wall_check": round(t2 - t1, 1), "rules": {r["id"]: {"groups": r["groups"], "phase": r["phase"], "fixable": r["fixable"], "mro": r["mro"], "remap": r["remap"]} for r in ruletable.load()}}


def get(tier):
    os.makedirs(CACHE, exist_ok=True)
    k = key(tier)
    d = os.path.join(CACHE, k)
    rf = os.path.join(d, "results.json")
    with vlib.Lock(".trace_%s.lock" % k):
        if os.path.exists(rf):
            return json.load(open(rf))
        # drop stale caches (other trees), keep disk use bounded
        for old in os.listdir(CACHE):
            if old != k:
                shutil.rmtree(os.path.join(CACHE, old), ignore_errors=True)
        os.makedirs(d, exist_ok=True)
        br = vlib.build()
        if not br.ocaml_ok:
            raise RuntimeError("model driver not built: " + br.ocaml_log[-300:])
        data = compute(tier, d)
        with open(rf + ".tmp", "w") as f:
            json.dump(data, f)
        os.replace(rf + ".tmp", rf)
        return data
