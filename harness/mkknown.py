#!/venv/bin/python
# Maintainer tool, never run by a check: folds the replay files of a saturation run (every distinct violation key of
# the thorough tier on the unchanged tree, reviewed by hand) into known_findings.json. One generated entry per
# failure class: the key regex is the class prefix followed by the exact alternation of the call sites (rule ids) or,
# where no call site can be named, the inputs ("@<file> {options} <variant>") that were reviewed. Anything else -
# another rule, another input, another class - still raises a VIOLATION.
#   usage: mkknown.py <replay dir> [<replay dir> ...]      (directories holding <property>/<hash>.json)
import os, sys, re, json, glob, collections

VERIF = os.path.dirname(os.path.dirname(os.path.abspath(__file__)))

DESCR = [
    (r"C01:edit-glues-code-tokens", "a whitespace rule configured with number_of_spaces 0 (or a structural rule) leaves two code tokens touching so that the emitted text merges them into another lexical element (library ieee -> libraryieee)"),
    (r"C01:overlapping-edits", "the edits the rule hands to vhdlFile.update overlap or are out of order and change length: the slices it analysed are not the slices that get replaced"),
    (r"C01:fixed-text-rejected", "the text --fix produced is no longer accepted by VSG"),
    (r"C01:run-changes-code-tokens", "the essential code tokens after the whole run differ from those before it"),
    (r"C01:edit-changes-code-tokens", "a single rule application replaced a slice by one with different essential code tokens"),
    (r"C02:edit-changes-comments", "a rule that is not a documented comment remover removed / altered a comment when a comment stands where the fixtures never put one"),
    (r"C02:run-changes-comments", "the comments after the whole run are not those before it"),
    (r"C02:comment-not-terminated", "after the rule a '--' comment is followed by code on the same line: the emitted comment absorbs that code"),
    (r"C03:layout-rule-changes-text", "a rule documented as whitespace / blank-line / indent / alignment changed something other than layout"),
    (r"C03:", "a rule changed more than its documented class allows"),
    (r"C07:line-count-changed", "a whitespace / indent / alignment / case rule changed the number of lines"),
    (r"C07:changed-lines-differ-from-reported", "the lines the rule's fix changed are not the lines it reported"),
    (r"C08:reread-differs:empty-whitespace-token", "number_of_spaces 0 / '0+' / '>=0' / '<n': the rule leaves an empty whitespace token in memory that a fresh parse of the emitted text does not have"),
    (r"C08:reread-differs:indent-of-", "the indent level of a token differs between the in-memory model and a fresh parse of the emitted text"),
    (r"C08:reread-differs:.*blank_line", "a blank_line token and the text disagree (the in-memory model lost the reader shape of C08_reread_requires_shape) after the named rule"),
    (r"C08:reread-differs", "parsing the emitted text gives a token of another class / value than the in-memory model holds"),
    (r"C08:fixed-text-rejected", "the text --fix produced is rejected when read back"),
    (r"C08:cli-report-after-fix-differs", "through the command line: the report `vsg --fix` prints differs from the report of a plain run on the file it wrote (first differing rule named)"),
    (r"C08:report-after-fix-differs", "the violations printed at the end of the fix run differ from a fresh check of the written text"),
    (r"C09:(second-fix-changes|oscillates)", "a second --fix of the text --fix has just produced changes it again"),
    (r"C18:", "the token index / a region of interest is stale when a rule reads it"),
    (r"C19:", "an internal exception instead of a diagnosed error"),
]


def descr(pid, prefix):
    for pat, d in DESCR:
        if re.match(pat, "%s:%s" % (pid, prefix)):
            return d
    return "see witness"


def records(srcs):
    for d in srcs:
        if os.path.isfile(d):  # a VERIF_DUMP_KEYS file: one JSON object per violation call, known or not
            for line in open(d):
                if line.strip():
                    yield json.loads(line)
        else:
            for f in sorted(glob.glob(os.path.join(d, "*", "*.json"))):
                yield json.load(open(f))


def main(args):
    merge = "--merge" in args  # keep the generated entries already present and add the new call sites to them
    dirs = [a for a in args if a != "--merge"]
    kf_path = os.path.join(VERIF, "known_findings.json")
    kf = json.load(open(kf_path))
    hand = [k for k in kf["findings"] if not k.get("generated")]
    groups = collections.OrderedDict()
    if merge:
        for k in kf["findings"]:
            if k.get("generated"):
                groups[(k["property"], k["prefix"])] = {"sites": list(k["sites"]), "what": k["witness"]}
    if True:
        for rp in records(dirs):
            pid, key = rp["property"], rp["key"]
            if key.startswith("tie:"):
                print("NOT folded (broken tie, fix the machinery):", pid, key)
                continue
            if any(k["property"] == pid and re.fullmatch(k["key"], key) for k in hand):
                continue
            if ":@" in key:
                prefix, site = key.split(":@", 1)
                site = "@" + site
            else:
                prefix, site = key.rsplit(":", 1)
            g = groups.setdefault((pid, prefix), {"sites": [], "what": rp["what"]})
            if site not in g["sites"]:
                g["sites"].append(site)
    gen = []
    for (pid, prefix), g in groups.items():
        sites = sorted(g["sites"])
        px = re.escape(prefix)
        if pid == "C09":  # whether a cycle is seen depends on how many further runs the tier makes
            px = re.sub(r"^(second\\-fix\\-changes|oscillates)", "(second\\-fix\\-changes|oscillates)", px)
        rx = px + ":(" + "|".join(re.escape(s) for s in sites) + ")"
        for s in sites:
            assert re.fullmatch(rx, prefix + ":" + s if not s.startswith("@") else prefix + ":" + s), (prefix, s)
        gen.append({"property": pid, "key": rx, "generated": True, "n_sites": len(sites), "prefix": prefix, "sites": sites, "witness": g["what"][:400],
                    "what": "%s [%d reviewed call site(s) / input(s): %s%s] - witness %s" % (descr(pid, prefix), len(sites), ", ".join(s[:60] for s in sites[:4]), ", ..." if len(sites) > 4 else "", g["what"][:260])})
    kf["findings"] = hand + gen
    with open(kf_path, "w") as f:
        json.dump(kf, f, indent=1)
    by = collections.Counter(k["property"] for k in gen)
    print("hand-written %d, generated %d classes %r covering %d sites" % (len(hand), len(gen), dict(by), sum(k["n_sites"] for k in gen)))


if __name__ == "__main__":
    main(sys.argv[1:])
