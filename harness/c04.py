# C04: reading is lossless; a clean file is never rewritten
import os, sys, itertools, time, json, subprocess, tempfile, shutil, stat
from multiprocessing import Pool
import vlib, corpus

ALPHA = [" ", "\t", "a", "e", "x", "1", ".", '"', "'", "\\", "-", "/", "*", "<", "=", ">", "?", ":", "(", ")", ";", "&"]


def enc(s):
    return " ".join(str(ord(c)) for c in s)


def enc_toks(toks):
    return " | ".join(enc(t) for t in toks)


def _py_create(chunk):
    from vsg import tokens

    out = []
    for s in chunk:
        try:
            t = tokens.create(s)
            out.append((enc_toks(t), "".join(t) == s))
        except Exception as e:  # noqa
            out.append(("EXC " + type(e).__name__, False))
    return out


def chunks(l, n):
    for i in range(0, len(l), n):
        yield l[i : i + n]


def tokenizer_cases(tier):
    r = vlib.rng("c04tok")
    n = 5 if tier == "thorough" else 4
    cases = []
    for k in range(0, n + 1):
        for t in itertools.product(ALPHA, repeat=k):
            cases.append("".join(t))
    n_exh = len(cases)
    # corpus lines
    seen = set()
    for f in corpus.files():
        try:
            for l in corpus.read_lines(f):
                if l not in seen and "\udc80" > max(l, default=" "):
                    seen.add(l)
        except Exception:
            pass
    lines = sorted(seen)
    cases += lines
    # random Latin-1 and delimiter-heavy strings
    nr = 200000 if tier == "thorough" else 40000
    lat = [chr(i) for i in range(1, 256) if i not in (10, 13)]
    for i in range(nr):
        k = r.randint(1, 24)
        if i % 2:
            cases.append("".join(r.choice(ALPHA + ["ab", "16#", "x\"", "'", "''", "--", "/*", "*/", "1e", "E", "\\a b\\"]) for _ in range(k)))
        else:
            cases.append("".join(r.choice(lat) for _ in range(k)))
    return cases, n_exh, len(lines), nr


def check_tokenizer(ck, tier):
    cases, n_exh, n_lines, n_rand = tokenizer_cases(tier)
    # the model cannot take \n / \r inside a line (VSG strips them before create); chars > 255 go through unchanged
    t0 = time.time()
    model = vlib.run_model("tokenizer", [enc(s) for s in cases])
    tm = time.time() - t0
    t0 = time.time()
    with Pool(vlib.NCPU) as p:
        py = [x for ch in p.map(_py_create, list(chunks(cases, 20000))) for x in ch]
    tp = time.time() - t0
    diffs = lossy = 0
    nontrivial = 0
    for s, m, (pe, ok) in zip(cases, model, py):
        if len(pe.split(" | ")) > 1:
            nontrivial += 1
        if not ok:
            lossy += 1
            ck.violation("tokens.create:lossy", "join(tokens.create(s)) != s for s=%r (got %s)" % (s, pe), {"kind": "input", "oracle": "tokenizer_lossless", "string": s})
        if m != pe:
            diffs += 1
            if ok:
                # model and implementation disagree but the property's oracle holds on this input: stale model
                ck.broken_tie("T2:tokens.create~Tokenizer.create", "input %r: model %s, implementation %s" % (s, m, pe))
    ck.cov["tokenizer"] = {
        "strings": len(cases),
        "exhaustive_len_le": 5 if tier == "thorough" else 4,
        "exhaustive_strings": n_exh,
        "alphabet": ALPHA,
        "corpus_lines": n_lines,
        "random": n_rand,
        "multi_token_results": nontrivial,
        "model_vs_impl_diffs": diffs,
        "lossy": lossy,
        "model_s": round(tm, 1),
        "python_s": round(tp, 1),
    }
    ck.sample({"tokenizer_case": cases[n_exh // 2], "model": model[n_exh // 2]})
    ck.sample({"tokenizer_case": cases[-1], "model": model[-1]})
    # cross-check extraction + driver against vm_compute inside Coq on a seeded sample
    r = vlib.rng("c04vm")
    idx = sorted(r.sample(range(len(cases)), 300))

    def coq_str(s):
        return "[" + "; ".join(str(ord(c)) for c in s) + "]%N"

    def coq_res(m):
        if m == "NONE":
            return "None"
        if m == "":
            return "Some ([[]] : list str)" if False else "Some []"
        return "Some [" + "; ".join("[" + "; ".join(t.split()) + "]%N" for t in m.split(" | ")) + "]"

    stm = []
    for j, i in enumerate(idx):
        m = model[i]
        # an empty token prints as an empty field; python join gives the same text, so reconstruct carefully
        toks = m.split(" | ") if m != "" else [""]
        res = "Some [" + "; ".join("([" + "; ".join(t.split()) + "]%N : str)" for t in toks) + "]" if m != "NONE" else "None"
        stm.append("Example c%d : vsg_create %s = %s. Proof. vm_compute. reflexivity. Qed." % (j, coq_str(cases[i]) if cases[i] else "([] : str)", res))
    ok, out = vlib.coq_check_cases("tok", "From Coq Require Import List NArith.\nImport ListNotations.\nRequire Import Tokenizer Symbols.", stm)
    ck.cov["tokenizer"]["vm_compute_crosscheck"] = {"cases": len(idx), "agree": ok}
    if not ok:
        ck.broken_tie("extraction:vm_compute~ocaml", out[-600:])
    return len(cases), nontrivial


# ---------------------------------------------------------------------------- emit(parse(x)) == x


def _parse_emit(path):
    from vsg import vhdlFile, parser
    from vsg.vhdlFile import utils as vu

    try:
        lines, err = vu.read_vhdlfile(path)
        if err is not None:
            return (path, "unreadable", None)
        try:
            o = vhdlFile.vhdlFile(lines)
        except Exception as e:
            from vsg.exceptions import ClassifyError

            return (path, "rejected" if isinstance(e, ClassifyError) else "crash:" + type(e).__name__, None)
        out = o.get_lines()
        bad = []
        if out[0] != "" or out[1:] != lines:
            for i, (a, b) in enumerate(itertools.zip_longest(lines, out[1:])):
                if a != b:
                    bad.append((i + 1, a, b))
                    break
        raw = sum(1 for t in o.lAllObjects if type(t) is parser.item)
        return (path, "ok", {"lines": len(lines), "bad": bad, "raw_items": raw, "tokens": len(o.lAllObjects)})
    except Exception as e:  # harness trouble
        return (path, "harness:" + repr(e), None)


def check_emit(ck, tier):
    fs = corpus.files()
    with Pool(vlib.NCPU) as p:
        res = p.map(_parse_emit, fs, chunksize=8)
    acc = rej = 0
    raw_files = 0
    for path, st, d in res:
        rel = os.path.relpath(path, vlib.REPO)
        if st == "ok":
            acc += 1
            if d["bad"]:
                ln, a, b = d["bad"][0]
                ck.violation("emit:get_lines!=input", "%s line %d: read %r, emitted %r" % (rel, ln, a, b), {"kind": "input", "oracle": "emit_parse", "file": rel})
            if d["raw_items"]:
                raw_files += 1
                ck.violation("classify:unclassified-token:" + rel, "%s: %d tokens left as raw parser.item" % (rel, d["raw_items"]), {"kind": "input", "oracle": "all_classified", "file": rel})
        elif st == "rejected":
            rej += 1
    ck.cov["emit"] = {"files": len(fs), "accepted": acc, "rejected": rej, "other": len(fs) - acc - rej}
    return acc


# ---------------------------------------------------------------------------- bytes / inode / mtime around CLI runs


def snap(path):
    st = os.stat(path)
    with open(path, "rb") as f:
        b = f.read()
    return (b, st.st_ino, st.st_mtime_ns, st.st_mode, st.st_size)


def check_cli(ck, tier):
    r = vlib.rng("c04cli")
    n = 40 if tier == "thorough" else 10
    pool = [f for f in corpus.files() if "/styles/" in f or "/rule_doc/" in f or "test_input" in f]
    fs = r.sample(pool, n)
    tmp = tempfile.mkdtemp(prefix="c04_", dir=vlib.BUILD)
    done = 0
    try:
        for i, src in enumerate(fs):
            dst = os.path.join(tmp, "f%d.vhd" % i)
            shutil.copy(src, dst)
            before = snap(dst)
            rc, out = vlib.sh([vlib.PY, "-m", "vsg", "-f", dst, "-ap"], env=vlib.repo_env(), timeout=300)
            if snap(dst) != before or sorted(os.listdir(tmp)) != sorted(set(os.listdir(tmp))):
                ck.violation("cli:plain-run-modifies-file", "plain run changed %s (bytes/inode/mtime)" % os.path.relpath(src, vlib.REPO), {"kind": "input", "oracle": "cli_untouched", "file": os.path.relpath(src, vlib.REPO), "fix": False})
            # make it clean, then --fix again must not rewrite
            rc1, out1 = vlib.sh([vlib.PY, "-m", "vsg", "-f", dst, "--fix"], env=vlib.repo_env(), timeout=600)
            rc2, out2 = vlib.sh([vlib.PY, "-m", "vsg", "-f", dst, "--fix"], env=vlib.repo_env(), timeout=600)
            mid = snap(dst)
            rc3, out3 = vlib.sh([vlib.PY, "-m", "vsg", "-f", dst, "--fix"], env=vlib.repo_env(), timeout=600)
            after = snap(dst)
            done += 1
            if mid[0] == after[0] and mid != after:
                ck.violation("cli:fix-rewrites-unchanged-file", "--fix rewrote %s although the content did not change (inode/mtime differ)" % os.path.relpath(src, vlib.REPO), {"kind": "input", "oracle": "cli_untouched", "file": os.path.relpath(src, vlib.REPO), "fix": True})
            extra = [x for x in os.listdir(tmp) if not x.endswith(".vhd")]
            if extra:
                ck.violation("cli:stray-files", "stray files after run: %r" % extra, {"kind": "input", "file": os.path.relpath(src, vlib.REPO)})
    finally:
        shutil.rmtree(tmp, ignore_errors=True)
    ck.cov["cli"] = {"files": done}
    return done


def run(tier):
    ck = vlib.Check("C04", tier, "proof")
    br = vlib.build()
    names, discharged, assumptions, broken = vlib.theorem_status("C04", br)
    ck.theorems(br, names, discharged, assumptions, broken)
    for b in broken:
        ck.broken_tie(b.split(":")[0] + ":" + b.split(":")[1][:60], b)
    n1 = nt = 0
    if br.ocaml_ok:
        n1, nt = check_tokenizer(ck, tier)
    else:
        ck.broken_tie("build:ocaml", br.ocaml_log[-500:])
    n2 = check_emit(ck, tier)
    n3 = check_cli(ck, tier)
    ck.cov["evaluations"] = n1 + n2 + n3
    ck.cov["distinct_nontrivial"] = nt + n2
    ck.cov["rule"] = "tokenizer strings: exhaustive over a 22-symbol alphabet up to the stated length + distinct corpus lines + seeded random; non-trivial = splits into more than one token. files: every accepted fixture is one case"
    ck.assumptions = ["characters above code point 255 are uncased non-space non-digit in the model", "POSIX stat() reflects rewrites (inode/mtime)"]
    return ck.finish()


def replay(rp):
    if rp.get("oracle") == "tokenizer_lossless":
        sys.path.insert(0, vlib.REPO)
        from vsg import tokens

        t = tokens.create(rp["string"])
        print(repr(rp["string"]), "->", t, "lossless" if "".join(t) == rp["string"] else "LOSSY")
        return 0 if "".join(t) == rp["string"] else 1
    if rp.get("oracle") in ("emit_parse", "all_classified"):
        print(_parse_emit(os.path.join(vlib.REPO, rp["file"])))
        return 0
    print(json.dumps(rp, indent=1))
    return 0
