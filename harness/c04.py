# C04: reading is lossless; a clean file is never rewritten
import os, sys, itertools, time, json, subprocess, tempfile, shutil, stat
from multiprocessing import Pool
import vlib, corpus

ALPHA = [" ", "\t", "a", "e", "x", "1", ".", '"', "'", "\\", "-", "/", "*", "<", "=", ">", "?", ":", "(", ")", ";", "&"]


def enc(s):
    return " ".join(str(ord(c)) for c in s)


def enc_toks(toks):
    return " | ".join(enc(t) for t in toks)


def _py_create(chunk):
    from vsg import tokens

    out = []
    for s in chunk:
        try:
            t = tokens.create(s)
            out.append((enc_toks(t), "".join(t) == s))
        except Exception as e:  # noqa
            out.append(("EXC " + type(e).__name__, False))
    return out


def chunks(l, n):
    for i in range(0, len(l), n):
        yield l[i : i + n]


def tokenizer_cases(tier):
    r = vlib.rng("c04tok")
    n = 5 if tier == "thorough" else 4
    cases = []
    for k in range(0, n + 1):
        for t in itertools.product(ALPHA, repeat=k):
            cases.append("".join(t))
    n_exh = len(cases)
    # corpus lines
    seen = set()
    for f in corpus.files():
        try:
            for l in corpus.read_lines(f):
                if l not in seen and "\udc80" > max(l, default=" "):
                    seen.add(l)
        except Exception:
            pass
    lines = sorted(seen)
    cases += lines
    # random Latin-1 and delimiter-heavy strings
    nr = 200000 if tier == "thorough" else 40000
    lat = [chr(i) for i in range(1, 256) if i not in (10, 13)]
    for i in range(nr):
        k = r.randint(1, 24)
        if i % 2:
            cases.append("".join(r.choice(ALPHA + ["ab", "16#", "x\"", "'", "''", "--", "/*", "*/", "1e", "E", "\\a b\\"]) for _ in range(k)))
        else:
            cases.append("".join(r.choice(lat) for _ in range(k)))
    return cases, n_exh, len(lines), nr


def check_tokenizer(ck, tier):
    cases, n_exh, n_lines, n_rand = tokenizer_cases(tier)
    # the model cannot take \n / \r inside a line (VSG strips them before create); chars > 255 go through unchanged
    t0 = time.time()
    model = vlib.run_model("tokenizer", [enc(s) for s in cases])
    tm = time.time() - t0
    t0 = time.time()
    with Pool(vlib.NCPU) as p:
        py = [x for ch in p.map(_py_create, list(chunks(cases, 20000))) for x in ch]
    tp = time.time() - t0
    diffs = lossy = 0
    nontrivial = 0
    for s, m, (pe, ok) in zip(cases, model, py):
        if len(pe.split(" | ")) > 1:
            nontrivial += 1
        if not ok:
            lossy += 1
            ck.violation("tokens.create:lossy", "join(tokens.create(s)) != s for s=%r (got %s)" % (s, pe), {"kind": "input", "oracle": "tokenizer_lossless", "string": s})
        if m != pe:
            diffs += 1
            if ok:
                # model and implementation disagree but the property's oracle holds on this input: stale model
                ck.broken_tie("T2:tokens.create~Tokenizer.create", "input %r: model %s, implementation %s" % (s, m, pe))
    ck.cov["tokenizer"] = {
        "strings": len(cases),
        "exhaustive_len_le": 5 if tier == "thorough" else 4,
        "exhaustive_strings": n_exh,
        "alphabet": ALPHA,
        "corpus_lines": n_lines,
        "random": n_rand,
        "multi_token_results": nontrivial,
        "model_vs_impl_diffs": diffs,
        "lossy": lossy,
        "model_s": round(tm, 1),
        "python_s": round(tp, 1),
    }
    ck.sample({"tokenizer_case": cases[n_exh // 2], "model": model[n_exh // 2]})
    ck.sample({"tokenizer_case": cases[-1], "model": model[-1]})
    # cross-check extraction + driver against vm_compute inside Coq on a seeded sample
    r = vlib.rng("c04vm")
    idx = sorted(r.sample(range(len(cases)), 300))

    def coq_str(s):
        return "[" + "; ".join(str(ord(c)) for c in s) + "]%N"

    def coq_res(m):
        if m == "NONE":
            return "None"
        if m == "":
            return "Some ([[]] : list str)" if False else "Some []"
        return "Some [" + "; ".join("[" + "; ".join(t.split()) + "]%N" for t in m.split(" | ")) + "]"

    stm = []
    for j, i in enumerate(idx):
        m = model[i]
        # an empty token prints as an empty field; python join gives the same text, so reconstruct carefully
        toks = m.split(" | ") if m != "" else [""]
        res = "Some [" + "; ".join("([" + "; ".join(t.split()) + "]%N : str)" for t in toks) + "]" if m != "NONE" else "None"
        stm.append("Example c%d : vsg_create %s = %s. Proof. vm_compute. reflexivity. Qed." % (j, coq_str(cases[i]) if cases[i] else "([] : str)", res))
    ok, out = vlib.coq_check_cases("tok", "From Coq Require Import List NArith.\nImport ListNotations.\nRequire Import Tokenizer Symbols.", stm)
    ck.cov["tokenizer"]["vm_compute_crosscheck"] = {"cases": len(idx), "agree": ok}
    if not ok:
        ck.broken_tie("extraction:vm_compute~ocaml", out[-600:])
    return len(cases), nontrivial


# ---------------------------------------------------------------------------- emit(parse(x)) == x


def _parse_emit(path):
    from vsg import vhdlFile, parser
    from vsg.vhdlFile import utils as vu

    try:
        lines, err = vu.read_vhdlfile(path)
        if err is not None:
            return (path, "unreadable", None)
        try:
            o = vhdlFile.vhdlFile(lines)
        except Exception as e:
            from vsg.exceptions import ClassifyError

            return (path, "rejected" if isinstance(e, ClassifyError) else "crash:" + type(e).__name__, None)
        out = o.get_lines()
        bad = []
        if out[0] != "" or out[1:] != lines:
            for i, (a, b) in enumerate(itertools.zip_longest(lines, out[1:])):
                if a != b:
                    bad.append((i + 1, a, b))
                    break
        raw = sum(1 for t in o.lAllObjects if type(t) is parser.item)
        return (path, "ok", {"lines": len(lines), "bad": bad, "raw_items": raw, "tokens": len(o.lAllObjects)})
    except Exception as e:  # harness trouble
        return (path, "harness:" + repr(e), None)


EXOTIC = ["\x0b", "\x0c", "\x1c", "\x1d", "\x1e", "\x85", "\u2028", "\u2029", "\xa0", "\ufeff", "\x00"]


def _exotic_file(args):
    """a file whose comment holds a character that some line-splitting functions treat as a line boundary: what is
    read and emitted must be the lines the file has (split at LF / CR / CRLF only)"""
    path, ch, enc = args
    from vsg import vhdlFile
    from vsg.vhdlFile import utils as vu

    text = "entity e is -- page %s break\nend entity e;\n-- tail %s\n" % (ch, ch)
    try:
        with open(path, "w", encoding=enc, newline="") as f:
            f.write(text)
    except UnicodeEncodeError:
        return None
    try:
        lines, err = vu.read_vhdlfile(path)
        want = open(path, encoding=enc, newline="").read().split("\n")[:-1]
        got = vhdlFile.vhdlFile(lines).get_lines()[1:]
        return (repr(ch), enc, want, got)
    except Exception as e:
        return (repr(ch), enc, None, type(e).__name__ + ": " + str(e)[:100])


def check_emit(ck, tier):
    fs = corpus.files()
    tmp = tempfile.mkdtemp(prefix="c04x_", dir=vlib.BUILD)
    try:
        jobs = [(os.path.join(tmp, "x%d_%s.vhd" % (i, enc.replace("-", ""))), ch, enc) for i, ch in enumerate(EXOTIC) for enc in ("utf-8", "ISO-8859-1")]
        with Pool(4) as p:
            ex = [r for r in p.map(_exotic_file, jobs) if r is not None]
    finally:
        shutil.rmtree(tmp, ignore_errors=True)
    for ch, enc, want, got in ex:
        if want is None:
            ck.violation("emit:exotic-character-crash:" + ch, "a file (%s) with the character %s inside a comment: %s" % (enc, ch, got), {"kind": "input", "oracle": "exotic", "character": ch, "encoding": enc})
        elif [l.rstrip("\r") for l in want] != got:
            ck.violation("emit:exotic-character-splits-line:" + ch, "a file (%s) with the character %s inside a comment is read as %r, its lines are %r" % (enc, ch, got, want), {"kind": "input", "oracle": "exotic", "character": ch, "encoding": enc})
    ck.cov["exotic_character_files"] = len(ex)
    with Pool(vlib.NCPU) as p:
        res = p.map(_parse_emit, fs, chunksize=8)
    acc = rej = 0
    raw_files = 0
    for path, st, d in res:
        rel = os.path.relpath(path, vlib.REPO)
        if st == "ok":
            acc += 1
            if d["bad"]:
                ln, a, b = d["bad"][0]
                ck.violation("emit:get_lines!=input", "%s line %d: read %r, emitted %r" % (rel, ln, a, b), {"kind": "input", "oracle": "emit_parse", "file": rel})
            if d["raw_items"]:
                raw_files += 1
                ck.violation("classify:unclassified-token:" + rel, "%s: %d tokens left as raw parser.item" % (rel, d["raw_items"]), {"kind": "input", "oracle": "all_classified", "file": rel})
        elif st == "rejected":
            rej += 1
    ck.cov["emit"] = {"files": len(fs), "accepted": acc, "rejected": rej, "other": len(fs) - acc - rej}
    return acc


# ---------------------------------------------------------------------------- Lines.read vs _processFile
LINE_ATOMS = ["/*", "*/", "**/", "*", "/", "--", "-- c", "#", " ", "  ", "\t", "a", "b;", '"s t"', "'", '" "', "' '", "x*", "--vhdl_comp_off", "-- synthesis translate_off"]


def _abstract(args):
    import absl
    from vsg import vhdlFile
    from vsg.vhdlFile import utils as vu

    kind, x = args
    try:
        if kind == "file":
            lines, err = vu.read_vhdlfile(x)
            o = vhdlFile.vhdlFile(lines)
        else:
            lines = x
            import io, contextlib

            cla = sys.modules["vsg.vhdlFile.vhdlFile"].command_line_args()
            cla.force_fix = True
            cla.fix = True

            with contextlib.redirect_stdout(io.StringIO()):
                o = vhdlFile.vhdlFile(lines, cla)
        return (x, lines, [(absl.kind_of(t), t.get_value()) for t in o.lAllObjects], o.get_lines())
    except Exception as e:
        return (x, None, type(e).__name__, None)


SMALL_ATOMS = ["/*", "*/", "*", "/", "--", " ", "a", "x*", "#"]


def gen_line_sets(tier):
    """exhaustive: every line of up to 3 (thorough: 4) atoms, outside and inside a delimited comment; plus random"""
    r = vlib.rng("c04lines")
    out = []
    k = 4 if tier == "thorough" else 3
    for n in range(0, k + 1):
        for t in itertools.product(SMALL_ATOMS, repeat=n):
            l = "".join(t)
            out.append([l, "a"])
            out.append(["/* h", l, "a"])
    n = 6000 if tier == "thorough" else 1500
    for i in range(n):
        ls = []
        for _ in range(r.randint(1, 4)):
            ls.append("".join(r.choice(LINE_ATOMS) for _ in range(r.randint(0, 5))))
        out.append(ls)
    return out


def _lines_of(toks):
    import absl

    cur, out = [], []
    for t in toks:
        cur.append(t)
        if t[0] == absl.KCR:
            out.append(cur)
            cur = []
    if cur:
        out.append(cur)
    return out


def _merge(line, coarse):
    import absl

    out = []
    for k, v in line:
        if coarse and k not in (absl.KWS, absl.KCR):
            k = absl.KITEM
        if k == absl.WILD:
            k = absl.KITEM
        if out and k == absl.KITEM and out[-1][0] == absl.KITEM:
            out[-1] = (k, out[-1][1] + v)
        else:
            out.append((k, v))
    return out


def canon_pair(model, real):
    """the role classifier may split a selected name on '.' or glue an operator symbol string to it: compare with
    maximal runs of item tokens concatenated (the relation [regroup] of LinesProofs.v). Inside a vhdl_comp_off
    region pragma.classify turns every non-whitespace token into pragma.ignore: on such lines only whitespace /
    non-whitespace is compared."""
    import absl

    ml, rl = _lines_of(model), _lines_of(real)
    if len(ml) != len(rl):
        return None, None
    a, b = [], []
    for x, y in zip(ml, rl):
        coarse = any(k == absl.WILD for k, _ in y)
        a += _merge(x, coarse)
        b += _merge(y, coarse)
    return a, b


def check_read(ck, tier):
    import absl

    jobs = [("file", f) for f in corpus.files()] + [("gen", ls) for ls in gen_line_sets(tier)]
    with Pool(vlib.NCPU) as p:
        res = p.map(_abstract, jobs, chunksize=16)
    ok = [(x, lines, toks, emitted) for (x, lines, toks, emitted) in res if lines is not None]
    model = vlib.run_model("read", [absl.enc_lines(lines) for (_, lines, _, _) in ok])
    diffs = 0
    kinds_seen = set()
    for (x, lines, toks, emitted), m in zip(ok, model):
        name = os.path.relpath(x, vlib.REPO) if isinstance(x, str) else repr(x)
        mt, toks = canon_pair(absl.dec_toks(m), toks) if m != "NONE" else (None, toks)
        lossy = emitted != [""] + lines
        if lossy and not isinstance(x, str):
            ck.violation("emit:get_lines!=input:generated", "lines %r are emitted as %r" % (lines, emitted[1:]), {"kind": "input", "oracle": "emit_lines", "lines": lines})
        same = mt is not None and mt == toks
        for k, _ in toks:
            kinds_seen.add(k)
        if not same:
            diffs += 1
            if not lossy:
                ck.broken_tie("T2:_processFile~Lines.read", "input %s: model %r, implementation %r" % (name, mt and mt[:40], toks[:40]))
    ck.cov["read"] = {"inputs": len(jobs), "compared": len(ok), "skipped_rejected_or_crashed": len(jobs) - len(ok), "generated_line_sets": len(jobs) - len(corpus.files()), "kinds_seen": sorted(kinds_seen), "model_vs_impl_diffs": diffs}
    if ok:
        ck.sample({"read_case": ok[-1][1], "model": model[-1]})
    return len(ok)


# ---------------------------------------------------------------------------- bytes / inode / mtime around CLI runs


def snap(path):
    st = os.stat(path)
    with open(path, "rb") as f:
        b = f.read()
    return (b, st.st_ino, st.st_mtime_ns, st.st_mode, st.st_size)


def check_cli(ck, tier):
    r = vlib.rng("c04cli")
    n = 40 if tier == "thorough" else 10
    pool = [f for f in corpus.files() if "/styles/" in f or "/rule_doc/" in f or "test_input" in f]
    fs = r.sample(pool, n)
    tmp = tempfile.mkdtemp(prefix="c04_", dir=vlib.BUILD)
    done = clean = 0
    import ruletable

    rt = ruletable.by_id()
    try:
        for i, src in enumerate(fs):
            dst = os.path.join(tmp, "f%d.vhd" % i)
            shutil.copy(src, dst)
            before = snap(dst)
            rc, out = vlib.sh(vlib.vsg_cmd() + ["-f", dst, "-ap"], env=vlib.repo_env(), timeout=300)
            if snap(dst) != before or sorted(os.listdir(tmp)) != sorted(set(os.listdir(tmp))):
                ck.violation("cli:plain-run-modifies-file", "plain run changed %s (bytes/inode/mtime)" % os.path.relpath(src, vlib.REPO), {"kind": "input", "oracle": "cli_untouched", "file": os.path.relpath(src, vlib.REPO), "fix": False})
            # make it clean, then --fix again must not rewrite
            rc1, out1 = vlib.sh(vlib.vsg_cmd() + ["-f", dst, "--fix"], env=vlib.repo_env(), timeout=600)
            rc2, out2 = vlib.sh(vlib.vsg_cmd() + ["-f", dst, "--fix"], env=vlib.repo_env(), timeout=600)
            mid = snap(dst)
            # premise of the clause: no violation of a fixable rule is left
            jf = os.path.join(tmp, "r%d.json" % i)
            vlib.sh(vlib.vsg_cmd() + ["-f", dst, "-ap", "--json", jf], env=vlib.repo_env(), timeout=600)
            try:
                left = [v["rule"] for fe in json.load(open(jf))["files"] for v in fe["violations"]]
            except Exception:
                left = None
            if os.path.exists(jf):
                os.unlink(jf)
            premise = left is not None and all(not rt.get(x, {"fixable": True})["fixable"] for x in left)
            rc3, out3 = vlib.sh(vlib.vsg_cmd() + ["-f", dst, "--fix"], env=vlib.repo_env(), timeout=600)
            after = snap(dst)
            done += 1
            if premise:
                clean += 1
                if mid != after:
                    ck.violation("cli:fix-rewrites-clean-file", "--fix rewrote %s although no fixable violation was left (%s)" % (os.path.relpath(src, vlib.REPO), "content changed" if mid[0] != after[0] else "inode/mtime differ"), {"kind": "input", "oracle": "cli_untouched", "file": os.path.relpath(src, vlib.REPO), "fix": True})
            extra = [x for x in os.listdir(tmp) if not x.endswith(".vhd")]
            if extra:
                ck.violation("cli:stray-files", "stray files after run: %r" % extra, {"kind": "input", "file": os.path.relpath(src, vlib.REPO)})
        # files that are violation free because nothing is switched on: every rule disabled by configuration, or the
        # whole file inside a vsg_off region. Whatever the text looks like (trailing whitespace, whitespace-only lines,
        # tabs), --fix must leave the bytes, the inode and the mtime alone.
        odd = "library ieee;  \n\t\nentity  E  is   \n   \nend entity  E; \t\n\narchitecture  A of E is\nbegin  \n  x <= y;    \n\nend architecture A;"
        alloff = os.path.join(tmp, "alloff.yaml")
        open(alloff, "w").write("rule:\n  global:\n    disable: true\n")
        quiet = 0
        extra_srcs = [os.path.join(vlib.REPO, "tests", "styles", "code_examples", "trailing_whitespace.vhd")] + fs[: (6 if tier == "thorough" else 2)]
        cases = [("all-rules-disabled", odd + "\n", ["-c", alloff]), ("vsg_off-region", "-- vsg_off\n" + odd + "\n", [])]
        for src in extra_srcs:
            if os.path.exists(src):
                try:
                    txt = open(src, encoding="utf-8").read()
                except Exception:
                    continue
                cases.append(("all-rules-disabled", txt, ["-c", alloff]))
                cases.append(("vsg_off-region", "-- vsg_off\n" + txt, []))
        for i, (kind, txt, args) in enumerate(cases):
            dst = os.path.join(tmp, "q%d.vhd" % i)
            open(dst, "w", encoding="utf-8").write(txt)
            jf = os.path.join(tmp, "q%d.json" % i)
            vlib.sh(vlib.vsg_cmd() + ["-f", dst, "-ap", "--json", jf] + args, env=vlib.repo_env(), timeout=600)
            try:
                left = [v["rule"] for fe in json.load(open(jf))["files"] for v in fe["violations"]]
            except Exception:
                left = None
            if os.path.exists(jf):
                os.unlink(jf)
            if left != []:
                continue  # rejected, or a rule that ignores the switch: not the premise of the clause
            before = snap(dst)
            vlib.sh(vlib.vsg_cmd() + ["-f", dst, "--fix"] + args, env=vlib.repo_env(), timeout=600)
            quiet += 1
            if snap(dst) != before:
                ck.violation("cli:fix-rewrites-clean-file:" + kind, "--fix rewrote a file that reports no violation (%s): %s" % (kind, "content changed" if snap(dst)[0] != before[0] else "inode/mtime differ"), {"kind": "input", "oracle": "cli_untouched", "why_clean": kind, "text": txt[:2000], "args": args})
    finally:
        shutil.rmtree(tmp, ignore_errors=True)
    ck.cov["cli"] = {"files": done, "fixed_files_without_fixable_violation_left": clean, "violation_free_by_switch_files_fixed": quiet}
    return done


def run(tier):
    ck = vlib.Check("C04", tier, "proof")
    br = vlib.build()
    names, discharged, assumptions, broken = vlib.theorem_status("C04", br)
    ck.theorems(br, names, discharged, assumptions, broken)
    for b in broken:
        ck.broken_tie(b.split(":")[0] + ":" + b.split(":")[1][:60], b)
    n1 = nt = 0
    if br.ocaml_ok:
        n1, nt = check_tokenizer(ck, tier)
    else:
        ck.broken_tie("build:ocaml", br.ocaml_log[-500:])
    n2 = check_emit(ck, tier)
    if br.ocaml_ok:
        n2 += check_read(ck, tier)
    n3 = check_cli(ck, tier)
    if tier == "thorough":
        # independent re-check of every property file and everything it depends on, with the axioms it relies on
        mods = ["VSG.props." + os.path.basename(f)[:-2] for f in sorted(os.listdir(os.path.join(vlib.COQ, "props"))) if f.endswith(".v")]
        rc, out = vlib.sh(["timeout", "3000", "coqchk", "-silent", "-o", "-R", ".", "VSG"] + mods, cwd=vlib.COQ, timeout=3100)
        ax = out.split("* Axioms:")[1].split("*")[0].strip() if "* Axioms:" in out else "?"
        ck.cov["coqchk"] = {"rc": rc, "modules": len(mods), "axioms": ax}
        if rc != 0 or ax != "<none>":
            ck.broken_tie("coqchk", "coqchk -o: rc %d, axioms %s" % (rc, ax[:300]))
    ck.cov["evaluations"] = n1 + n2 + n3
    ck.cov["distinct_nontrivial"] = nt + n2
    ck.cov["rule"] = "tokenizer strings: exhaustive over a 22-symbol alphabet up to the stated length + distinct corpus lines + seeded random; non-trivial = splits into more than one token. files: every accepted fixture is one case"
    ck.assumptions = ["characters above code point 255 are uncased non-space non-digit in the model", "POSIX stat() reflects rewrites (inode/mtime)"]
    return ck.finish()


def replay(rp):
    if rp.get("oracle") == "tokenizer_lossless":
        sys.path.insert(0, vlib.REPO)
        from vsg import tokens

        t = tokens.create(rp["string"])
        print(repr(rp["string"]), "->", t, "lossless" if "".join(t) == rp["string"] else "LOSSY")
        return 0 if "".join(t) == rp["string"] else 1
    if rp.get("oracle") == "emit_lines":
        r = _abstract(("gen", rp["lines"]))
        print(rp["lines"], "->", r[3])
        return 0 if r[3] == [""] + rp["lines"] else 1
    if rp.get("oracle") in ("emit_parse", "all_classified"):
        print(_parse_emit(os.path.join(vlib.REPO, rp["file"])))
        return 0
    print(json.dumps(rp, indent=1))
    return 0
