# C13: phase gating, --all_phases, --fix_phase, skip_phase
import os, sys, json, shutil, tempfile, time
from multiprocessing import Pool
import vlib, corpus


def enc_sched(rows, allp, fix_phase, skip):
    parts = ["%d %d -1" % (1 if allp else 0, fix_phase), " ".join(map(str, skip)) + " -1"]
    for r in rows:
        ph = r["phase"] if isinstance(r["phase"], int) and r["phase"] >= 0 else 0
        parts.append("%d %d %d %d %d %d %d %d -1" % (r["i"], ph, r["sub"] if isinstance(r["sub"], int) and r["sub"] >= 0 else 99, r["disable"], r["fixable"], 1 if r["error"] else 0, r["prereq"], r["nviol"]))
    return " ".join(parts)


def _worker(job):
    """three real runs of one (file, configuration): -ap check, gated check, --fix -fp N"""
    import observe

    src, cfg_text, fix_phase, tmpdir, k = job
    d = os.path.join(tmpdir, "j%d" % k)
    os.makedirs(d, exist_ok=True)
    path = os.path.join(d, "f.vhd")
    shutil.copy(src, path)
    cfg = os.path.join(d, "c.yaml")
    with open(cfg, "w") as f:
        f.write(cfg_text)
    out = {"src": src, "cfg": cfg_text, "fix_phase": fix_phase}
    try:
        for name, argv in (("ap", ["-f", path, "-c", cfg, "-ap"]), ("gated", ["-f", path, "-c", cfg]), ("fix", ["-f", path, "-c", cfg, "--fix", "-fp", str(fix_phase)])):
            log = observe.Log()
            observe.install_scheduler_observer(log)
            res, text, exc, cla, oc = observe.run_apply(argv, path)
            if exc or res is None or log.rules is None or not log.rule_lists:
                out[name] = {"error": exc or "no result: " + text[-300:]}
                continue
            rl = log.rule_lists[-1]
            out[name] = dict(events=log.events, rows=observe.rule_rows(log.rules), viol=observe.violations_of(log.rules), status=bool(res[0]), last=rl.lastPhaseRan,
                             nran=rl.iNumberRulesRan, flag=bool(rl.violations), skip=list(cla.skip_phase or []), text=open(path).read() if name == "fix" else None)
    finally:
        shutil.rmtree(d, ignore_errors=True)
    return out


def gen_config(r, ids, groups):
    import yaml

    rule = {}
    for _ in range(r.randint(0, 6)):
        rid = r.choice(ids)
        what = r.choice(["phase", "phase", "disable", "severity", "fixable"])
        if what == "phase":
            rule.setdefault(rid, {})["phase"] = r.choice([1, 2, 3, 4, 5, 6, 7, 7, 1, 8, 0])
        elif what == "disable":
            rule.setdefault(rid, {})["disable"] = True
        elif what == "fixable":
            rule.setdefault(rid, {})["fixable"] = False
        else:
            rule.setdefault(rid, {})["severity"] = "Warning"
    if r.random() < 0.5:
        g = r.choice(groups)
        rule.setdefault("group", {})[g] = {r.choice(["phase", "severity", "disable"]): None}
        key = list(rule["group"][g].keys())[0]
        rule["group"][g][key] = {"phase": r.choice([1, 3, 7]), "severity": "Warning", "disable": True}[key]
    if r.random() < 0.15:
        rule["global"] = {"severity": "Warning"}
    cfg = {"rule": rule}
    if r.random() < 0.5:
        cfg["skip_phase"] = sorted(r.sample([1, 2, 3, 4, 5, 6, 7], r.randint(1, 3)))
    return yaml.safe_dump(cfg)


def predicted(rows_ap, allp, fix_phase, skip):
    m = vlib.run_model("sched", [enc_sched(rows_ap, allp, fix_phase, skip)])[0]
    left, _, ev = m.partition(" || ")
    a, last, flag = [x.strip() for x in left.split("|")]
    return [int(x) for x in a.split()], int(last), int(flag), ev.split()


def run(tier):
    import ruletable

    ck = vlib.Check("C13", tier, "proof")
    br = vlib.build()
    names, discharged, assumptions, broken = vlib.theorem_status("C13", br)
    ck.theorems(br, names, discharged, assumptions, broken)
    for b in broken:
        ck.broken_tie(b[:80], b)
    if not br.ocaml_ok:
        ck.broken_tie("build:ocaml", br.ocaml_log[-500:])
        return ck.finish()
    r = vlib.rng("c13")
    rt = [x for x in ruletable.load() if not x["deprecated"] and x["phase"]]
    ids = [x["id"] for x in rt]
    groups = sorted({g for x in rt for g in x["groups"]})
    pool = [f for f in corpus.files() if ("/rule_doc/" in f or "/styles/" in f or "test_input.vhd" in f) and os.path.getsize(f) < 6000]
    nfiles, ncfg = (60, 6) if tier == "thorough" else (14, 4)
    files = r.sample(pool, nfiles)
    tmp = tempfile.mkdtemp(prefix="c13_", dir=vlib.BUILD)
    jobs = []
    for f in files:
        for j in range(ncfg):
            cfg = "rule: {}\n" if j == 0 else gen_config(r, ids, groups)
            jobs.append((f, cfg, r.randint(1, 7), tmp, len(jobs)))
    try:
        with Pool(vlib.NCPU) as p:
            res = p.map(_worker, jobs, chunksize=1)
    finally:
        shutil.rmtree(tmp, ignore_errors=True)
    n_ok = n_err = n_gated_cut = 0
    distinct = set()
    for o in res:
        rel = os.path.relpath(o["src"], vlib.REPO)
        if any("error" in o.get(k, {"error": 1}) for k in ("ap", "gated", "fix")):
            n_err += 1
            continue
        n_ok += 1
        ap, g, fx = o["ap"], o["gated"], o["fix"]
        rows = ap["rows"]
        idx = {row["id"]: row for row in rows}
        skip = ap["skip"]
        # what the configuration file asks for is the reference, not what VSG made of it
        try:
            import yaml as _yaml

            want = sorted(set(int(x) for x in (_yaml.safe_load(o["cfg"]) or {}).get("skip_phase", []) or []))
        except Exception:
            want = None
        if want is not None and sorted(set(skip)) != want:
            ck.violation("skip_phase:configured-set-not-honoured", "%s: the configuration asks to skip phases %r, the run skips %r" % (rel, want, sorted(set(skip))), dict({"kind": "input", "file": rel, "config": o["cfg"], "fix_phase": o["fix_phase"]}, oracle="skip-config"))
            skip = want
        replay = {"kind": "input", "file": rel, "config": o["cfg"], "fix_phase": o["fix_phase"]}
        # ---- property oracle on the real runs alone
        err_phases = sorted({idx[v[0]]["phase"] for v in ap["viol"] if idx[v[0]]["error"]})
        first_fail = err_phases[0] if err_phases else None
        exp_g = sorted(v for v in ap["viol"] if first_fail is None or idx[v[0]]["phase"] <= first_fail)
        if sorted(g["viol"]) != exp_g:
            extra = [v for v in sorted(g["viol"]) if v not in exp_g][:3]
            missing = [v for v in exp_g if v not in g["viol"]][:3]
            ck.violation("gating:report-not-prefix", "%s: gated report is not the all-phases report cut after phase %s: unexpected %r missing %r" % (rel, first_fail, extra, missing), dict(replay, oracle="gated_prefix"))
        if g["status"] != bool(err_phases) or ap["status"] != bool(err_phases):
            ck.violation("gating:exit-flag", "%s: error-type violations %s but status gated=%s ap=%s" % (rel, bool(err_phases), g["status"], ap["status"]), dict(replay, oracle="flag"))
        for name, run_ in (("ap", ap), ("gated", g), ("fix", fx)):
            for e in run_["events"]:
                if isinstance(e, (list, tuple)) and idx[e[1]]["phase"] in skip:
                    ck.violation("skip_phase:rule-ran", "%s: rule %s of skipped phase %s was %s in the %s run" % (rel, e[1], idx[e[1]]["phase"], "fixed" if e[0] == "F" else "analysed", name), dict(replay, oracle="skip"))
        fix_part = fx["events"][fx["events"].index("BEGIN_FIX") + 1 : fx["events"].index("BEGIN_CHECK")] if "BEGIN_FIX" in fx["events"] else []
        for e in fix_part:
            if isinstance(e, (list, tuple)) and not (1 <= idx[e[1]]["phase"] <= o["fix_phase"]):
                ck.violation("fix_phase:rule-ran", "%s: --fix_phase %d but rule %s of phase %s was run by fix" % (rel, o["fix_phase"], e[1], idx[e[1]]["phase"]), dict(replay, oracle="fix_phase"))
        # ---- T2: scheduler model vs observed call sequence
        uid = [row["id"] for row in rows]
        for name, run_, allp in (("ap", ap, True), ("gated", g, False)):
            pa, plast, pflag, _ = predicted(rows, allp, 7, skip)
            obs = [e[1] for e in run_["events"][run_["events"].index("BEGIN_CHECK") + 1 :] if isinstance(e, (list, tuple))]
            if [uid[i] for i in pa] != obs or plast != run_["last"] or bool(pflag) != run_["flag"] or len(pa) != run_["nran"]:
                ck.broken_tie("T2:check_rules~Phases.check_rules", "%s (%s): predicted %d rules last=%d flag=%d, observed %d rules last=%s flag=%s" % (rel, name, len(pa), plast, pflag, len(obs), run_["last"], run_["flag"]))
        _, _, _, pev = predicted(rows, True, o["fix_phase"], skip)
        pev2 = []
        for e in pev:
            if e == "N":
                pev2 += ["N1", "N2", "N3"]
            elif e == "I":
                pev2.append("I")
            else:
                pev2.append((e[0], uid[int(e[1:])]))
        obsf = [tuple(e) if isinstance(e, (list, tuple)) else e for e in fix_part]
        # the fix run's rule table may differ from the -ap run's only in nviol; the schedule does not depend on it
        if pev2 != obsf:
            k = next((k for k, (a, b) in enumerate(zip(pev2, obsf)) if a != b), min(len(pev2), len(obsf)))
            ck.broken_tie("T2:rule_list.fix~Phases.fix_events", "%s: event %d predicted %r observed %r (lengths %d / %d)" % (rel, k, pev2[k : k + 1], obsf[k : k + 1], len(pev2), len(obsf)))
        if sorted(g["viol"]) != sorted(ap["viol"]):
            n_gated_cut += 1
        distinct.add((rel, o["cfg"]))
        ck.sample({"file": rel, "config": o["cfg"], "first_failing_phase": first_fail, "gated_violations": len(g["viol"]), "all_phases_violations": len(ap["viol"]), "fix_events": len(fix_part)}, limit=3)
    ck.cov.update({"runs": 3 * len(jobs), "cases_compared": n_ok, "cases_with_error": n_err, "cases_where_gating_cut_the_report": n_gated_cut})
    ck.cov["evaluations"] = len(jobs)
    ck.cov["distinct_nontrivial"] = n_gated_cut
    ck.cov["rule"] = "corpus file x random configuration (phase re-assignment per rule and per group incl. 0 and 8, disable, fixable, Warning severity, skip_phase) x random --fix_phase; non-trivial = gating actually removed violations"
    ck.assumptions = ["analysis is read-only (C06): violation counts of the -ap run are used to predict the gated run"]
    if n_err > len(jobs) // 3:
        ck.broken_tie("harness:runs-failed", "%d of %d cases raised: %r" % (n_err, len(jobs), [o.get(k, {}).get("error") for o in res for k in ("ap", "gated", "fix") if "error" in o.get(k, {})][:3]))
    return ck.finish()


def replay(rp):
    tmp = tempfile.mkdtemp(prefix="c13r_", dir=vlib.BUILD)
    try:
        o = _worker((os.path.join(vlib.REPO, rp["file"]), rp["config"], rp.get("fix_phase", 7), tmp, 0))
        for k in ("ap", "gated", "fix"):
            print(k, {x: o[k][x] for x in o[k] if x in ("error", "status", "last", "nran", "flag", "skip")}, "violations", len(o[k].get("viol", [])))
    finally:
        shutil.rmtree(tmp, ignore_errors=True)
    return 0
