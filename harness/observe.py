# In-process driver of the real VSG (apply_rules with the real argparse / config glue) with observers installed
# from outside /repo. Must be imported inside a worker process whose sys.path has the tree under test first.
import os, sys, io, json, contextlib, traceback


class Log:
    def __init__(self):
        self.events = []  # scheduler-level events
        self.rules = None  # the rule objects of the last rule_list
        self.rule_lists = []


def install_scheduler_observer(log):
    """records, at call depth 0 only: ('F', uid) Rule.fix, ('A', uid) Rule.analyze, 'I' set_token_indent,
    'N1'/'N2'/'N3' the three normalisation calls after phase 1, 'BEGIN_FIX'/'BEGIN_CHECK'."""
    from vsg import rule_list as rl
    from vsg import vhdlFile as vf

    vfcls = vf.vhdlFile
    depth = [0]
    if getattr(rl, "_verif_observed", False):
        rl._verif_log[0] = log
        return
    rl._verif_observed = True
    rl._verif_log = [log]
    orig_load = rl.load_rules

    def wrap(r, name, tag):
        orig = getattr(r, name)

        def w(*a, **k):
            if depth[0] == 0:
                rl._verif_log[0].events.append((tag, r.unique_id))
            depth[0] += 1
            try:
                return orig(*a, **k)
            finally:
                depth[0] -= 1

        setattr(r, name, w)

    def load_rules():
        rules = orig_load()
        for r in rules:
            wrap(r, "fix", "F")
            wrap(r, "analyze", "A")
        rl._verif_log[0].rules = rules
        return rules

    rl.load_rules = load_rules

    def wrapm(cls, name, tag):
        orig = getattr(cls, name)

        def w(self, *a, **k):
            if depth[0] == 0:
                rl._verif_log[0].events.append(tag)
            return orig(self, *a, **k)

        setattr(cls, name, w)

    wrapm(vfcls, "set_token_indent", "I")
    wrapm(vfcls, "fix_blank_lines", "N1")
    wrapm(vfcls, "fix_trailing_whitespace", "N2")
    wrapm(vfcls, "update_token_map", "N3")
    of, oc = rl.rule_list.fix, rl.rule_list.check_rules

    def fix(self, *a, **k):
        rl._verif_log[0].events.append("BEGIN_FIX")
        rl._verif_log[0].rule_lists.append(self)
        return of(self, *a, **k)

    def check_rules(self, *a, **k):
        rl._verif_log[0].events.append("BEGIN_CHECK")
        if self not in rl._verif_log[0].rule_lists:
            rl._verif_log[0].rule_lists.append(self)
        return oc(self, *a, **k)

    rl.rule_list.fix = fix
    rl.rule_list.check_rules = check_rules


def parse_args(argv):
    from vsg import cmd_line_args

    old = sys.argv
    sys.argv = ["vsg"] + list(argv)
    try:
        return cmd_line_args.parse_command_line_arguments()
    finally:
        sys.argv = old


def run_apply(argv, path, index=0):
    """the per-file body of main(): returns (result tuple | None, captured stdout, exception text | None, cla, oConfig)"""
    from vsg import config, apply_rules

    out = io.StringIO()
    exc = None
    res = cla = oConfig = None
    try:
        with contextlib.redirect_stdout(out), contextlib.redirect_stderr(out):
            cla = parse_args(argv)
            oConfig = config.New(cla)
            res = apply_rules.apply_rules(cla, oConfig, (index, path))
    except SystemExit as e:
        exc = "SystemExit(%r)" % (e.code,)
    except BaseException as e:  # noqa
        exc = "".join(traceback.format_exception_only(type(e), e)).strip() + " @ " + " <- ".join("%s:%d" % (os.path.basename(f.filename), f.lineno) for f in traceback.extract_tb(e.__traceback__)[-3:][::-1])
    return res, out.getvalue(), exc, cla, oConfig


def rule_rows(rules):
    from vsg import severity

    rows = []
    for i, r in enumerate(rules):
        rows.append(dict(i=i, id=r.unique_id, phase=r.phase, sub=r.subphase, disable=bool(r.disable), fixable=bool(r.fixable),
                         error=(r.severity.type == severity.error_type) if r.severity is not None else None, prereq=(r.prerequisites != []),
                         nviol=len(r.violations), sev=getattr(r.severity, "name", None)))
    return rows


def violations_of(rules):
    out = []
    for r in rules:
        for v in r.violations:
            out.append((r.unique_id, v.get_line_number(), v.get_solution()))
    return out
