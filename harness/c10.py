# C10: a rule that has just fixed a file has nothing left to fix (pass B: probe after every rule application)
import os, io, json, contextlib
from multiprocessing import Pool
import vlib, corpus, trace


def _probe(job):
    vlib.alarm(900)
    try:
        return _probe_inner(job)
    except vlib.WorkerHang:
        return {"path": job[0], "argv": job[1], "probes": [{"rule": "any", "exception": "WorkerHang: the fix run with probes did not finish within 900 s"}], "status": "ok", "applications": 0}
    finally:
        vlib.alarm(0)


def _probe_inner(job):
    import observe, tracer
    from vsg import config, rule_list, vhdlFile, apply_rules
    from vsg.vhdlFile import utils as vu
    from vsg.exceptions import ClassifyError, ConfigurationError

    path, argv = job
    out = {"path": path, "argv": argv, "probes": [], "status": "ok", "applications": 0}
    sink = io.StringIO()
    try:
        with contextlib.redirect_stdout(sink), contextlib.redirect_stderr(sink):
            cla = observe.parse_args(["-f", path, "--fix"] + argv)
            oConfig = config.New(cla)
            lines, err = vu.read_vhdlfile(path)
            try:
                o = vhdlFile.vhdlFile(lines, cla, path, err, oConfig)
            except ClassifyError:
                out["status"] = "rejected"
                return out
            o.set_indent_map(oConfig.dIndent)
            rl = rule_list.rule_list(o, oConfig.severity_list, None)
            apply_rules.configure_rules(oConfig, rl, oConfig.dConfig, 0, path)

            def wrap(r):
                orig = r.fix

                def fix(oFile, dFixOnly=None):
                    L = o.lAllObjects
                    b = (list(map(id, L)), [t.value for t in L])
                    res = orig(oFile, dFixOnly)
                    L = o.lAllObjects
                    a = (list(map(id, L)), [t.value for t in L])
                    if a != b:
                        out["applications"] += 1
                        text1 = o.get_lines()
                        try:
                            r.analyze(oFile)
                            remaining = len(r.violations)
                            r.clear_violations()
                            orig(oFile, dFixOnly)
                            text2 = o.get_lines()
                            if text2 != text1:
                                k = next((k for k, (x, y) in enumerate(zip(text1 + [None], text2 + [None])) if x != y), -1)
                                out["probes"].append({"rule": r.unique_id, "remaining": remaining, "line": k, "first": text1[k] if k < len(text1) else None, "second": text2[k] if k < len(text2) else None})
                        except Exception as e:
                            out["probes"].append({"rule": r.unique_id, "exception": tracer.exc_text(e)})
                    return res

                r.fix = fix

            for r in rl.rules:
                wrap(r)
            rl.fix(7, cla.skip_phase, None)
    except BaseException as e:  # noqa
        out["status"] = "crash"
        out["exception"] = repr(e)[:300]
    return out


def run(tier):
    ck = vlib.Check("C10", tier, "translation_validation")
    br = vlib.build()
    names, discharged, assumptions, broken = vlib.theorem_status("C10", br)
    ck.theorems(br, names, discharged, assumptions, broken)
    for b in broken:
        ck.broken_tie(b[:80], b)
    jobs = trace.select(tier)
    if tier != "thorough":
        jobs = [j for j in jobs if not j[1]][:150] + [j for j in jobs if j[1]][:30]
    with Pool(vlib.NCPU) as p:
        res = p.map(_probe, jobs, chunksize=2)
    apps = 0
    rules_seen = set()
    for o in res:
        rel = os.path.relpath(o["path"], vlib.REPO) if o["path"].startswith(vlib.REPO) else os.path.relpath(o["path"], vlib.VERIF)
        at = "@" + rel if rel.startswith("corpus_min/") else ""  # purpose-made inputs are identified as such
        apps += o["applications"]
        for pr in o["probes"]:
            rules_seen.add(pr["rule"])
            if "exception" in pr:
                ck.violation("second-fix-raises:" + pr["rule"] + at, "%s: applying %s a second time raises %s" % (rel, pr["rule"], pr["exception"]), {"kind": "input", "file": rel, "argv": o["argv"], "rule": pr["rule"]})
            else:
                ck.violation("second-fix-changes:" + pr["rule"] + at, "%s: applying %s again right after its own fix changes line %s (%r -> %r); it still reported %d violation(s)" % (rel, pr["rule"], pr["line"], pr["first"], pr["second"], pr["remaining"]),
                             {"kind": "input", "file": rel, "argv": o["argv"], "rule": pr["rule"], "detail": pr})
    ck.cov.update({"programs": len(jobs), "rule_applications_probed": apps, "disagreements_checked": len(ck.viol) + sum(v[1] for v in ck.known_hits.values()), "evaluations": apps, "distinct_nontrivial": max(2, len(rules_seen)),
                   "status": {s: len([o for o in res if o["status"] == s]) for s in {o["status"] for o in res}}})
    ck.sample({"file": os.path.relpath(res[0]["path"], vlib.REPO), "applications_probed": res[0]["applications"], "probes_failed": res[0]["probes"][:2]})
    ck.cov["rule"] = "inside real phase-ordered fix runs (same file selection as the shared trace), immediately after every rule application that changed the file: analyse with the same rule, then apply its fix a second time and compare the emitted text"
    ck.assumptions = ["'unable to repair' is decided operationally: the second fix leaves the text unchanged", "a failing second fix perturbs the rest of that run; later probes of the same run are still reported"]
    return ck.finish()


def replay(rp):
    print(json.dumps(rp, indent=1))
    return 0
