# Interpretation of the shared trace results (trace.get) per property. Each function adds violations to a
# vlib.Check with keys of the form "<what>:<rule>" so that known findings match by call site and signature.
import os, json, collections
import vlib, trace

LAYOUT_GROUPS = ("whitespace", "blank_line", "indent", "alignment")
C07_GROUPS = ("whitespace", "indent", "alignment", "case")
REMOVER_BASES = ("vsg.rules.remove_comments_from_end_of_lines_bounded_by_tokens.", "vsg.rules.multiline_structure.")


def table():
    return json.load(open(os.path.join(vlib.VERIF, "optional_roles.json")))


def doc_groups():
    """rule id -> documented group (docs/*_rules.rst), the class C03 speaks of"""
    import translate

    return {k: v["group"] for k, v in translate.parse_docs(vlib.REPO).items()}


def group_of(rules, docg, rid):
    g = docg.get(rid)
    if g and g != "none":
        return g
    gs = rules.get(rid, {}).get("groups") or ["none"]
    return gs[0]


def is_trailing_remover(rules, rid):
    """rules whose documented purpose is to remove *trailing* comments (component / instantiation port and generic lists)"""
    return any(m.startswith(REMOVER_BASES[0]) for m in rules.get(rid, {}).get("mro", []))


def is_remover(rules, rid):
    return any(any(m.startswith(b) for b in REMOVER_BASES) for m in rules.get(rid, {}).get("mro", []))


def runs(data):
    for o in data["results"]:
        yield o


def tag(o):
    return o["rel"] + (" [" + " ".join(o["argv"]) + "]" if o["argv"] else "")


def rep(o, r=None, **kw):
    d = {"kind": "input", "file": o["rel"], "argv": o["argv"], "label": o.get("label"), "derived_options": o.get("derived_options"), "variant_text": o.get("variant_text")}
    if r is not None:
        d.update({"rule": r["rule"], "reported_lines": r.get("lines"), "inserted": r.get("ins"), "deleted": r.get("del"), "spans": r.get("spans")})
    d.update(kw)
    return d


def blame(o, flag, init):
    """the rule application after which the checker's flag (shape / glue) turned false and stayed false until the
    end of the run; "normalisers" for the pass after phase 1; None when it holds at the end or never held"""
    marks = {}
    for m in o.get("marks", []):
        marks.setdefault(m["after_record"], []).append(m)
    state, who = o.get(init, True), None
    recs = o["records"]
    for i in range(len(recs) + 1):
        for m in marks.get(i, []):
            v = m[flag]
            if state and not v:
                who = "normalisers" if m["norm"] == "1" else who
            if v:
                who = None
            state = v
        if i < len(recs) and flag in recs[i]:
            v = recs[i][flag]
            if state and not v:
                who = recs[i]["rule"]
            if v:
                who = None
            state = v
    return who


def optkey(o):
    """the option values of an option run, for keys of failure classes that depend on the value (a rule failing under
    another value is another finding)"""
    opts = (o.get("label") or {}).get("options") or o.get("derived_options") or {}
    return ",".join("%s=%s" % (k_, json.dumps(v_, default=str)) for k_, v_ in sorted(opts.items()) if k_ != "disable")[:60]


def common_ties(ck, data, pid):
    """the correspondence every trace-based property rests on: the update model reproduces every observed list"""
    n = 0
    for o in runs(data):
        if "checker_error" in o:
            ck.broken_tie("trace-checker", "%s: %s" % (tag(o), o["checker_error"]))
            continue
        for r in o["records"]:
            n += 1
            if r.get("replay") is False:
                ck.broken_tie("T2:vhdlFile.update~Splice.update", "%s: after %s the token list is not what the update model computes from the recorded edits (a token was changed outside the slices handed to update)" % (tag(o), r["rule"]))
            if r.get("kinds") is False:
                ck.broken_tie("T1:RoleTable-kinds", "%s: %s created a token whose kind differs from the role table" % (tag(o), r["rule"]))
        for isnorm, ok in o.get("sync", []):
            if not ok:
                ck.broken_tie("T2:normalisers~Lines" if isnorm == "1" else "trace-sync", "%s: %s" % (tag(o), "fix_blank_lines / fix_trailing_whitespace differ from the Lines.v model" if isnorm == "1" else "observer and checker lost synchronisation"))
        if o.get("end_ok") is False:
            ck.broken_tie("trace-end", "%s: final list differs from the checker's reconstruction" % tag(o))
    return n


def stats(data):
    st = collections.Counter(o["status"] for o in runs(data))
    return {"runs": len(data["results"]), "status": dict(st), "rule_applications_that_changed_the_file": sum(len(o["records"]) for o in runs(data)),
            "distinct_rules_that_changed_a_file": len({r["rule"] for o in runs(data) for r in o["records"]}), "wall_run_s": data.get("wall_run"), "wall_checker_s": data.get("wall_check")}


def run_prop(pid, tier, level, evaluate, rule_text, assumptions, extra=None):
    """common skeleton: build, theorems, shared trace, common ties, property-specific evaluation, evidence"""
    ck = vlib.Check(pid, tier, level)
    br = vlib.build()
    names, discharged, assumptions_txt, broken = vlib.theorem_status(pid, br)
    ck.theorems(br, names, discharged, assumptions_txt, broken)
    for b in broken:
        ck.broken_tie(b[:80], b)
    try:
        data = trace.get(tier)
    except Exception as e:
        ck.broken_tie("trace", repr(e)[:400])
        ck.cov["evaluations"] = 0
        ck.cov["distinct_nontrivial"] = 0
        return ck.finish()
    n = common_ties(ck, data, pid)
    rules = data["rules"]
    docg = doc_groups()
    info = evaluate(ck, data, rules, docg) or {}
    ck.cov["trace"] = stats(data)
    ck.cov.update(info)
    ck.cov.setdefault("programs", len(data["results"]))
    ck.cov.setdefault("disagreements_checked", len(ck.viol) + sum(v[1] for v in ck.known_hits.values()))
    ck.cov.setdefault("evaluations", n)
    ck.cov.setdefault("distinct_nontrivial", stats(data)["distinct_rules_that_changed_a_file"])
    ck.cov["rule"] = rule_text
    ck.assumptions = assumptions
    if extra:
        extra(ck, data, rules, docg)
    return ck.finish()


def replay(rp):
    """re-run the observed fix run of a replay file against /repo and print what the extracted checker says"""
    import tempfile, shutil, subprocess, random, yaml, roletable, tracer, corpus

    print(json.dumps({k: rp[k] for k in rp if k not in ("variant_text",)}, indent=1)[:3000])
    lab = rp.get("label") or {}
    src = rp["file"].split(" {")[0].split(" <")[0]
    path = os.path.join(vlib.REPO, src) if not src.startswith("corpus_min") else os.path.join(vlib.VERIF, src)
    tmp = tempfile.mkdtemp(prefix="replay_", dir=vlib.BUILD)
    try:
        argv = list(rp.get("argv") or [])
        if lab.get("kind") == "indentcfg":
            cf = os.path.join(tmp, "i.yaml")
            open(cf, "w").write(yaml.safe_dump(lab["indent"]))
            argv += ["-c", cf]
        opts = rp.get("derived_options") or lab.get("options")
        if opts:
            cf = os.path.join(tmp, "o.yaml")
            open(cf, "w").write(yaml.safe_dump({"rule": {lab.get("rule") or rp.get("rule"): opts}}))
            argv += ["-c", cf]
        if lab.get("variant"):
            lines = corpus.read_lines(path)
            if lines and lines[-1] == "":
                lines = lines[:-1]
            v = trace.make_variant(lines, lab["variant"], random.Random(lab["variant"] + ":" + os.path.relpath(path, vlib.REPO)))
            path = os.path.join(tmp, "v.vhd")
            open(path, "w", encoding="utf-8", errors="surrogateescape").write("\n".join(v) + "\n")
        vlib.build()
        tp = os.path.join(tmp, "t.trace")
        o = tracer.run_one({"path": path, "argv": argv, "trace_path": tp, "roles": roletable.load(), "refix": 2})
        print("status", o["status"], o.get("exception", ""), "| c18 probes", o.get("c18"), "| reread", o.get("reread_diff"), o.get("reread_rejected"), "| refix", o.get("refix_changes"), o.get("left_fixable"))
        if os.path.exists(tp):
            out = subprocess.run([os.path.join(vlib.BUILD, "vsgmodel"), "trace", tp], stdout=subprocess.PIPE, text=True).stdout.split("\n")
            print("flags: " + " ".join(trace.FLAGS))
            for r, line in zip(o["records"], [l for l in out if l.startswith("R ")]):
                if rp.get("rule") in (None, r["rule"]):
                    print(r["rule"], "reported lines", r["lines"][:10], "|", line)
    finally:
        shutil.rmtree(tmp, ignore_errors=True)
    return 0
