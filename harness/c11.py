# C11: code tags suppress exactly the tagged rules on exactly the tagged lines
import os, sys, json, time, tempfile, shutil
from multiprocessing import Pool
import vlib, corpus, absl

FORMS = ["-- vsg_off", "-- vsg_off {a}", "-- vsg_off {a} {b}", "-- vsg_on", "-- vsg_on {a}", "-- vsg_on {b}", "-- vsg_disable_next_line {a}",
         "-- vsg_disable_next_line {a} {b}", "-- vsg_off {a} : because", "-- vsg_on all", "-- vsg_off all", "-- vsg_on {a} {b} : done", "-- vsg_offset", "--vsg_off",
         "-- vsg_off {a} {a}", "-- vsg_off {b} {a} {b}", "-- vsg_disable_next_line {a} {a}"]


def ckind(t):
    from vsg import parser

    if isinstance(t, parser.carriage_return):
        return 2
    if isinstance(t, parser.comment):
        return 1
    return 0


def enc_ctoks(toks):
    return " ".join("%d -2 %s -1" % (k, absl.enc_str(v)) if v else "%d -2 -1" % k for k, v in toks)


def _violations(o):
    from vsg import rule_list, severity

    rl = rule_list.rule_list(o, severity.create_list({}))
    rl.check_rules(bAllPhases=True)
    pos = {id(t): i for i, t in enumerate(o.lAllObjects)}
    out = []
    for r in rl.rules:
        for v in r.violations:
            try:
                idx = [pos.get(id(t), -1) for t in v.oTokens.get_tokens()]
            except Exception:
                idx = None
            out.append((r.unique_id, v.get_line_number(), v.get_solution(), idx))
    return out


def _case(args):
    """returns dict with abstract tokens of the tagged file, real stamps, violations of the neutral and tagged file"""
    path, lines_t = args
    from vsg import vhdlFile

    try:
        lines_n = [l.replace("vsg_", "vsq_") if l.lstrip().startswith("--") and "vsg_" in l and l in TAGLINES_CACHE.get(path, ()) else l for l in lines_t]
        ot = vhdlFile.vhdlFile(lines_t)
        on = vhdlFile.vhdlFile(lines_n)
        toks = [(ckind(t), t.get_value()) for t in ot.lAllObjects]
        real = [list(t.code_tags) for t in ot.lAllObjects]
        same_shape = len(ot.lAllObjects) == len(on.lAllObjects) and all(type(a) is type(b) for a, b in zip(ot.lAllObjects, on.lAllObjects))
        vn = _violations(on)
        vt = _violations(ot)
        return dict(path=path, lines=lines_t, toks=toks, real=real, same_shape=same_shape, vn=vn, vt=[(a, b, c) for a, b, c, _ in vt])
    except Exception as e:
        return dict(path=path, lines=lines_t, error=type(e).__name__ + ": " + str(e)[:200])


TAGLINES_CACHE = {}


def make_cases(tier):
    r = vlib.rng("c11")
    nfiles = 200 if tier == "thorough" else 36
    pool = [f for f in corpus.files() if ("rule_doc" in f or "styles" in f or "test_input.vhd" in f)]
    cand = []
    for f in r.sample(pool, min(len(pool), nfiles * 4)):
        try:
            ls = corpus.read_lines(f)
        except Exception:
            continue
        if 8 <= len(ls) <= 220 and not any("vsg_" in l for l in ls):
            cand.append((f, ls))
        if len(cand) >= nfiles:
            break
    return cand, r


def first_pass(args):
    path, lines = args
    from vsg import vhdlFile

    try:
        o = vhdlFile.vhdlFile(lines)
        return path, sorted({v[0] for v in _violations(o)})
    except Exception as e:
        return path, None


def run(tier):
    ck = vlib.Check("C11", tier, "proof")
    br = vlib.build()
    names, discharged, assumptions, broken = vlib.theorem_status("C11", br)
    ck.theorems(br, names, discharged, assumptions, broken)
    for b in broken:
        ck.broken_tie(b[:80], b)
    if not br.ocaml_ok:
        ck.broken_tie("build:ocaml", br.ocaml_log[-500:])
        return ck.finish()
    cand, r = make_cases(tier)
    with Pool(vlib.NCPU) as p:
        fp = dict(p.map(first_pass, cand, chunksize=2))
    cases = []
    per_file = 6 if tier == "thorough" else 4
    for path, lines in cand:
        ids = fp.get(path)
        if not ids:
            continue
        for j in range(per_file):
            ls = list(lines)
            a = r.choice(ids)
            b = r.choice(ids + ["signal_007", "foo_001"])
            taglines = set()
            if j == 1:
                # a region that names the same rule twice and is closed again: what follows is outside every tag
                k = r.randint(0, max(0, len(ls) // 3))
                seq = ["-- vsg_off %s %s" % (a, b), "-- vsg_off %s" % a, "-- vsg_on %s %s" % (a, b)]
                for n_, t in enumerate(seq):
                    ls.insert(k + 2 * n_, t)
                taglines |= set(seq)
            elif j == 0:
                # whole file wrapped in a bare vsg_off, a named tag later on
                ls.insert(0, "-- vsg_off")
                k = r.randint(1, len(ls))
                ls.insert(k, "-- vsg_off %s" % a)
                taglines |= {"-- vsg_off", "-- vsg_off %s" % a}
            else:
                for _ in range(r.randint(1, 5)):
                    k = r.randint(0, len(ls))
                    t = r.choice(FORMS).format(a=a, b=b)
                    if r.random() < 0.3:
                        t = "  " + t
                    ls.insert(k, t)
                    taglines.add(t)
            TAGLINES_CACHE.setdefault(path, set()).update(taglines)
            cases.append((path, ls))
    with Pool(vlib.NCPU) as p:
        res = p.map(_case, cases, chunksize=2)
    ok = [d for d in res if "error" not in d and d["same_shape"]]
    # T2: per token tag lists
    model = vlib.run_model("tags", [enc_ctoks(d["toks"]) for d in ok])
    diffs = tagged_tokens = 0
    queries = []
    for d, m in zip(ok, model):
        ms = [[] if part.strip() == "" else ["".join(chr(int(x)) for x in tg.split()) for tg in part.split(" , ")] for part in m.split(" | ")]
        d["model"] = ms
        tagged_tokens += sum(1 for x in d["real"] if x)
        if ms != d["real"]:
            diffs += 1
            i = next((i for i, (a, b) in enumerate(zip(ms, d["real"])) if a != b), -1)
            d["stamp_diff"] = (i, ms[i] if i >= 0 else None, d["real"][i] if i >= 0 else None)
        qs = []
        for (rid, line, sol, idx) in d["vn"]:
            idx = [i for i in (idx or []) if i >= 0]
            qs.append(absl.enc_str(rid) + " -2 " + " ".join(map(str, idx)) + " -1")
        queries.append(enc_ctoks(d["toks"]) + " -3 " + " ".join(qs))
    supp = vlib.run_model("tagsq", queries)
    e2e_bad = 0
    n_supp = n_viol = 0
    for d, s in zip(ok, supp):
        flags = s.split()
        exp = sorted((rid, line, sol) for (rid, line, sol, idx), f in zip(d["vn"], flags) if f == "0")
        n_viol += len(flags)
        n_supp += flags.count("1")
        got = sorted(d["vt"])
        rel = os.path.relpath(d["path"], vlib.REPO)
        if exp != got:
            e2e_bad += 1
            missing = [x for x in exp if x not in got][:3]
            extra = [x for x in got if x not in exp][:3]
            site = (extra or missing)[0][0]
            ck.violation("filter:%s:%s" % ("reported-inside-tag" if extra else "lost-outside-tag", site),
                         "%s with tags: violations differ from the filtered report of the neutral variant; unexpected %r, missing %r" % (rel, extra, missing),
                         {"kind": "input", "oracle": "tag_filter", "file": rel, "lines": d["lines"], "unexpected": extra, "missing": missing})
        elif "stamp_diff" in d:
            ck.broken_tie("T2:set_code_tags~CodeTags.stamp", "%s token %r: model %r implementation %r" % ((rel,) + d["stamp_diff"]))
    ck.cov["placements"] = {"cases": len(cases), "compared": len(ok), "errors": len([d for d in res if "error" in d]), "shape_changed": len([d for d in res if "error" not in d and not d["same_shape"]]),
                            "tokens_with_tags": tagged_tokens, "stamp_diffs": diffs, "violations_neutral": n_viol, "suppressed_by_model": n_supp, "report_mismatches": e2e_bad}
    if ok:
        d = ok[0]
        ck.sample({"file": os.path.relpath(d["path"], vlib.REPO), "tag_lines": [l for l in d["lines"] if "vsg_" in l], "violations_neutral": len(d["vn"]), "violations_tagged": len(d["vt"])})
    # wrapped file: empty report, --fix only strips trailing whitespace
    nw = wrapped(ck, tier, [c for c in cand][: (30 if tier == "thorough" else 8)])
    ck.cov["evaluations"] = len(cases) + nw
    ck.cov["distinct_nontrivial"] = len([d for d in ok if any(d["real"])])
    ck.cov["rule"] = "tag comments (14 forms incl. remarks, 'all', look-alikes) inserted at random line boundaries of corpus files, rule ids drawn from the rules that report on that file; non-trivial = at least one token carries a tag"
    ck.assumptions = ["the neutral variant (vsg_ -> vsq_ in the inserted comments) parses to the same token classes (checked per case)"]
    return ck.finish()


def wrapped(ck, tier, cand):
    tmp = tempfile.mkdtemp(prefix="c11_", dir=vlib.BUILD)
    n = 0
    try:
        # the tag filter must hold whatever else is configured on the rule objects
        cfgs = [None, "rule:\n  global:\n    user_error_message: 'see the coding guideline'\n", "rule:\n  global:\n    severity: Warning\n    indent_size: 3\n"]
        for ci, ctext in enumerate(cfgs):
            if ctext:
                open(os.path.join(tmp, "g%d.yaml" % ci), "w").write(ctext)
        for i, (path, lines) in enumerate(cand):
            dst = os.path.join(tmp, "w%d.vhd" % i)
            body = ["-- vsg_off"] + lines
            with open(dst, "w") as f:
                f.write("\n".join(body) + "\n")
            jf = dst + ".json"
            cargs = ["-c", os.path.join(tmp, "g%d.yaml" % (i % len(cfgs)))] if cfgs[i % len(cfgs)] else []
            rc, out = vlib.sh(vlib.vsg_cmd() + ["-f", dst, "-ap", "--json", jf] + cargs, env=vlib.repo_env(), timeout=600)
            rel = os.path.relpath(path, vlib.REPO)
            try:
                nv = sum(len(fe["violations"]) for fe in json.load(open(jf))["files"])
            except Exception:
                nv = -1
            if rc != 0 or nv != 0:
                ck.violation("wrapped:report-not-empty", "%s wrapped in a bare vsg_off%s: exit %d, %d violations" % (rel, " under " + repr(cfgs[i % len(cfgs)]) if cargs else "", rc, nv), {"kind": "input", "oracle": "wrapped", "file": rel})
            rc, out = vlib.sh(vlib.vsg_cmd() + ["-f", dst, "--fix"] + cargs, env=vlib.repo_env(), timeout=600)
            after = open(dst).read().split("\n")
            exp = [l.rstrip() for l in body] + [""]
            if after != exp:
                k = next((k for k, (a, b) in enumerate(zip(after, exp)) if a != b), -1)
                ck.violation("wrapped:fix-changes-text", "%s wrapped in a bare vsg_off: --fix changed line %d: %r -> %r" % (rel, k + 1, exp[k] if k >= 0 else None, after[k] if k >= 0 else None), {"kind": "input", "oracle": "wrapped", "file": rel})
            n += 1
    finally:
        shutil.rmtree(tmp, ignore_errors=True)
    ck.cov["wrapped_files"] = n
    return n


def replay(rp):
    print(json.dumps({k: rp[k] for k in rp if k != "lines"}, indent=1))
    if rp.get("oracle") == "tag_filter":
        TAGLINES_CACHE[os.path.join(vlib.REPO, rp["file"])] = set(l for l in rp["lines"] if "vsg_" in l)
        d = _case((os.path.join(vlib.REPO, rp["file"]), rp["lines"]))
        print("violations neutral %d tagged %d" % (len(d.get("vn", [])), len(d.get("vt", []))))
    return 0
