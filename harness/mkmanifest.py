# writes MANIFEST.json from the table below (kept in one place so it always validates)
import json, os
HERE = os.path.dirname(os.path.dirname(os.path.abspath(__file__)))
CHECKS = {}
def C(pid, cat, text, note, tech, ref):
    CHECKS[pid] = dict(property_id=pid, quick_cmd="./bin/check %s quick" % pid, thorough_cmd="./bin/check %s thorough" % pid,
        evidence_file="/verif/evidence/%s.json" % pid, replay_cmd_template="./bin/check --replay {path}", engine="coq-vsg",
        level_claimed=dict(category=cat, text=text, design_ref=ref), level_note=note, technique=tech)

C("C04", "proof",
  "Theorems create_lossless / create_total proved in Coq for every string and every symbol table (no bound), instantiated at the tables regenerated from vsg/tokens.py on each run; the hand-written Gallina tokenizer is tied to tokens.create by an exhaustive differential (all strings up to length 4/5 over the 22-symbol delimiter alphabet, every corpus line, random Latin-1) run through the Coq-extracted model and cross-checked by vm_compute; emit(parse(x)) = x and the byte/inode/mtime clause are checked on the real code for every fixture / a CLI sample.",
  "Trusted: Coq kernel, extraction (ExtrOcamlBasic), OCaml driver, the Symbols translator, the harness. Modelled rather than verified: tokens.py, the line-level classifiers. The role classifier enters only through the value-preserving-reclassification hypothesis, which the emit differential checks per file.",
  "Coq proof (unbounded) + regenerated tables + extracted-model differential", "5/C04")

C("C11", "proof",
  "The whole code-tag mechanism is modelled in Coq at string level (comment prefix test, ':' remark cut, whitespace split, the tag state machine with the next-line flag, the stamp-before/after-update order of set_code_tags, has_code_tag, the add_violation filter) and seven theorems are proved for all token lists: all_persists, named_persists, untagged_clean / no_tags_clean, next_line_scope, filter_exact, wrapped_file_silent. The extracted model is tied to /repo by comparing the tag list of every token of tagged corpus files with the model's stamps, and end to end by requiring report(tagged file) = model filter of report(same file with neutral comments); the wrapped-file clause is run through the CLI (empty report, --fix strips trailing whitespace only).",
  "Trusted: Coq kernel, extraction, driver, harness (abstraction of a token to carriage-return / comment / other + value; mapping of a violation to its token positions). Modelled rather than verified: code_tags.py, set_code_tags, has_code_tag. Rules enter through their observed violations only.",
  "Coq proof (unbounded) of the tag state machine + extracted-model differential + metamorphic report filter", "5/C11")

NA_REASON = "check not built yet in this round (see DESIGN.md section 10 build order); nothing is claimed for it"
ALL = ["C%02d" % i for i in range(1, 21)]
m = dict(version=1, setup_cmd="./bin/setup",
  hooks=dict(guard="VSG_VERIF_OBSERVE", enable="no source hooks: the harness monkeypatches vsg from outside /repo (PYTHONPATH=/repo)", baseline_off_cmd="cd /repo && /venv/bin/python -m pytest -ra -q -p no:cacheprovider --timeout=900 --continue-on-collection-errors", source_commits=[], add_only=True),
  engines=[dict(name="coq-vsg", path="/verif/coq", serves_properties=sorted(CHECKS), kind_free_text="Coq 8.16 models + theorems, extracted to OCaml, tied to /repo by regenerated tables, differential correspondence and verified trace checkers")],
  checks=[CHECKS[k] for k in sorted(CHECKS)],
  notes="see DESIGN.md; known findings in known_findings.json",
  not_applicable=[dict(property_id=p, reason=NA_REASON) for p in ALL if p not in CHECKS])
json.dump(m, open(os.path.join(HERE, "MANIFEST.json"), "w"), indent=1)
print("checks:", sorted(CHECKS))
