# writes MANIFEST.json from the table below (kept in one place so it always validates)
import json, os
HERE = os.path.dirname(os.path.dirname(os.path.abspath(__file__)))
CHECKS = {}
def C(pid, cat, text, note, tech, ref):
    CHECKS[pid] = dict(property_id=pid, quick_cmd="./bin/check %s quick" % pid, thorough_cmd="./bin/check %s thorough" % pid,
        evidence_file="/verif/evidence/%s.json" % pid, replay_cmd_template="./bin/check --replay {path}", engine="coq-vsg",
        level_claimed=dict(category=cat, text=text, design_ref=ref), level_note=note, technique=tech)

C("C04", "proof",
  "Theorems create_lossless / create_total proved in Coq for every string and every symbol table (no bound), instantiated at the tables regenerated from vsg/tokens.py on each run; the hand-written Gallina tokenizer is tied to tokens.create by an exhaustive differential (all strings up to length 4/5 over the 22-symbol delimiter alphabet, every corpus line, random Latin-1) run through the Coq-extracted model and cross-checked by vm_compute; emit(parse(x)) = x and the byte/inode/mtime clause are checked on the real code for every fixture / a CLI sample.",
  "Trusted: Coq kernel, extraction (ExtrOcamlBasic), OCaml driver, the Symbols translator, the harness. Modelled rather than verified: tokens.py, the line-level classifiers. The role classifier enters only through the value-preserving-reclassification hypothesis, which the emit differential checks per file.",
  "Coq proof (unbounded) + regenerated tables + extracted-model differential", "5/C04")

C("C11", "proof",
  "The whole code-tag mechanism is modelled in Coq at string level (comment prefix test, ':' remark cut, whitespace split, the tag state machine with the next-line flag, the stamp-before/after-update order of set_code_tags, has_code_tag, the add_violation filter) and seven theorems are proved for all token lists: all_persists, named_persists, untagged_clean / no_tags_clean, next_line_scope, filter_exact, wrapped_file_silent. The extracted model is tied to /repo by comparing the tag list of every token of tagged corpus files with the model's stamps, and end to end by requiring report(tagged file) = model filter of report(same file with neutral comments); the wrapped-file clause is run through the CLI (empty report, --fix strips trailing whitespace only).",
  "Trusted: Coq kernel, extraction, driver, harness (abstraction of a token to carriage-return / comment / other + value; mapping of a violation to its token positions). Modelled rather than verified: code_tags.py, set_code_tags, has_code_tag. Rules enter through their observed violations only.",
  "Coq proof (unbounded) of the tag state machine + extracted-model differential + metamorphic report filter", "5/C11")

C("C13", "proof",
  "check_rules (per-sub-phase loop, cumulative failure counter, sticky flag, break) and the call sequence of rule_list.fix (phase range, skip list, sub-phases, disabled filter, prerequisite ordering, severity test, indent / normalisation calls) are modelled in Coq; proved for all rule tables, phase assignments, skip sets and violation counts: the gated run analyses exactly the all-phases run's rules of phases <= the stop phase (gated_is_prefix), the same for the reported violations (gated_report_is_prefix), the flag is set iff an error-type violation was counted, skipped phases / disabled rules / phases outside 1..7 are never analysed, and Rule.fix is only called for enabled error-typed rules of non-skipped phases 1..fix_phase. The extracted scheduler is tied to /repo by predicting, from the configured rule objects, the exact sequence of Rule.fix / Rule.analyze / set_token_indent / normalisation calls of real apply_rules runs (real argparse + config glue) under random phase re-assignments, disables, severities, skip_phase and --fix_phase, and the property is additionally evaluated on the real reports alone.",
  "Trusted: Coq kernel, extraction, driver, observers (instance-level wrappers installed from outside /repo). Assumes analyses are read-only (C06) when the -ap run's violation counts predict the gated run. Modelled rather than verified: rule_list.py scheduling code.",
  "Coq proof (unbounded) of the scheduler + extracted-model prediction of observed call sequences", "5/C13")

C("C20", "proof",
  "Rule._filter_out_fix_only_violations (including its exception-driven paths) and Rule.fix's fixable guard are modelled in Coq; filter_spec, fix_only_all_is_fix, fix_only_empty_is_identity and fixed_only_selected are proved for all dictionaries and violation lists. The extracted filter is compared with the real method on random dictionaries (missing keys, 'all', duplicates, unfixable rules), and the three CLI clauses are run on corpus files: every rule with 'all' = plain --fix, an empty selection leaves bytes and inode untouched, a case / whitespace rule listed for half of its reported lines changes exactly / at most those lines.",
  "Trusted: Coq kernel, extraction, driver, harness. Modelled rather than verified: rule.py filter. 'line-local rule' is read as case / whitespace group rules.",
  "Coq proof (unbounded) of the filter + extracted-model differential + CLI metamorphic runs", "5/C20")

C("C14", "proof",
  "The report projections of one file (rows, stable sort by line, total and per-severity counts, JUnit filter, JSON / quality-report list, summary verdict, per-file status) and main's OR over files are modelled in Coq; proved for all violation sets and severity assignments: the table is a stably sorted permutation of the JSON list, total = number of rows, per-severity counts add up, JUnit = exactly the error-type rows, file status <-> an error-type row is listed, summary verdict = not status, process exit 0 <-> every file processed and no error-type row (exit_zero_iff); summary_by_name_refuted records the defect repaired in 13df738. The extracted model predicts, from the JSON file of real CLI runs (batches with rejected files, user-defined error / warning severities at rule, group and global level, gated and -ap), the vsg table, counts, JUnit text, quality report, syntastic lines, summary line and routing, and the exit code, which are compared with the real artefacts.",
  "Trusted: Coq kernel, extraction, driver, the harness parsers of the six artefacts. The JSON file is the carrier of the violation set (its agreement with rule.violations is part of C13's observed runs). Modelled rather than verified: rule_list report functions, report/*.py, junit.py.",
  "Coq proof (unbounded) of the report projections + extracted-model prediction of CLI artefacts", "5/C14")

C("C16", "proof",
  "write_vhdl_file (stat, open/truncate of the .tmp file with its mode rules, write, close, chmod, atomic replace, the except PermissionError / finally remove structure), create_backup_file and the early returns of apply_rules are modelled over an abstract file system with, at every OS call, a crash, a crash or error in the middle of the write, PermissionError or another OSError. Proved for every schedule, umask and stale .tmp file: the target holds the original or the complete fixed content with the original mode (writeback_atomic, apply_rules_atomic), the .tmp file is removed whenever the process survives and remove works, a completed backup is the original and is never touched again, rejected / misconfigured files are untouched. The extracted model is compared with the real function on the complete single-fault and (fault, fault-in-finally) schedule space per environment (mode x umask x stale tmp), each run a subprocess under an OS-call shim with real SIGKILL; the property is also evaluated on each real outcome alone, and the CLI clauses (mode kept, --backup faithful, rejected and misconfigured files untouched) are run.",
  "Trusted: Coq kernel, extraction, driver, the OS-call shim (wb_exec.py) and its mapping of calls to model steps (a changed call sequence is itself reported). Assumes POSIX rename atomicity and that a killed process leaves the effects of completed calls intact; torn writes inside one os.replace are outside the model.",
  "Coq proof (all schedules) + exhaustive fault enumeration against the real function", "5/C16")

C("C15", "exploration",
  "Partial. Proved in Coq (all file lists, all worker completion orders, any job count): the results handed to main's aggregation by the Pool.imap loop are those of the sequential loop - apply_rules of each file in command-line order up to and including the first stop - and the exit status is their OR (results_independent, no_stop_all, exit_status_or). These theorems assume apply_rules is a pure function of the file; that purity (module globals, the shared configuration object mutated by per-file overrides, worker processes handling several files) is runtime behaviour no theorem here exhibits, so it is explored: batches with rejected files and per-file file_rules overrides are run in several orders and job counts, in check and --fix mode, and every part of every file's result (report block, JSON entry, JUnit case, error line, fixed text, exit contribution, output order) is compared with the single-file -p 1 run; --stdin is compared with by-name.",
  "Trusted: Coq kernel for the scheduler theorems; the CLI differential harness. multiprocessing, pickling of the configuration per task and OS scheduling are exercised, not modelled.",
  "Coq proof of the job loop + CLI differential exploration of cross-file purity", "5/C15")


TV_NOTE = "Trusted: Coq kernel, extraction, OCaml driver (parsing, MD5 digest of the canonical list), the observer tracer.py (instance-level wrappers installed from outside /repo, abstraction of a token to identity / role / kind / text), the RoleTable / RuleDoc translators. The rules and the role classifier are constrained components, not models: the theorems hold for every run whose edits pass the extracted obligations, and this check validates the observed edits of real runs against them (translation validation), bounded by the files and configurations listed in the evidence."

C("C01", "translation_validation",
  "Framework theorem + translation validation. Proved in Coq for all lists and edit sets: vhdlFile.update with sorted disjoint in-range edits equals its closed form (everything outside the analysed slices is kept), any ++-congruence between each replaced slice and its replacement lifts to the whole list (update_congruence), length-preserving pointwise edits need no ordering (update_pointwise), and a whole fix run whose edits pass the boolean obligation keeps the sequence of essential code tokens - case-folded, literals and extended identifiers exact, optional elements of the committed table dropped, optionally modulo one pair of condition parentheses (C01_run, C01_run_paren). Every rule application of real phase-ordered fix runs is recorded (edits, new tokens, object identities), replayed through the extracted update model (digest must match) and judged by the extracted obligations; the whole-run comparison and re-read acceptance are evaluated per file.",
  TV_NOTE + " optional_roles.json is part of the statement. Declaration-split rules are judged end to end only.",
  "Coq proof of the update / congruence framework + extracted-checker validation of every observed rule application", "5/C01")

C("C02", "translation_validation",
  "Framework theorem + translation validation. Proved: a run whose edits keep the (normalised) comment / pragma / preprocessor texts of each replaced slice keeps them overall (C02_run); with the allow-listed removers the result is a subsequence in the original order (C02_run_with_removers, via an inductive subsequence relation). Every observed rule application is judged by the extracted comment obligation; a rule that is not derived from the documented remover base classes may not lose a comment; the comment-termination invariant (a '--' comment is followed by optional whitespace and a line break) is evaluated on the reconstructed list after every application, and the whole run is compared.",
  TV_NOTE, "Coq proof of the comment-preservation framework + extracted-checker validation of every observed rule application", "5/C02")

C("C03", "translation_validation",
  "Tables + framework theorems + translation validation. C03_docs_agree is proved by computation over tables regenerated from docs/*_rules.rst and the live rule objects on every run (phase, group, fixable, disabled, severity of all implemented rules); the scheduler theorems say Rule.fix is reached only for enabled error-typed rules and _fix_violation only for fixable ones; C03_layout_run, C03_case_run, C03_case_keeps_exact, C03_identity_run say what a run preserves when its edits pass the obligation of the rule's documented group. Every observed rule application is judged by the obligation of its documented group, and CLI runs with every rule fixable: false / disabled / Warning must leave files untouched.",
  TV_NOTE, "regenerated tables checked in Coq + class obligations validated on every observed rule application", "5/C03")

C("C05", "exploration",
  "Partial. Proved in Coq: for every classifier program over the cursor primitives (find_next_token, is_next_token / object_value_is, assign_next_token) the concrete execution is determined by the stream of folded raw-item values ahead of the cursor (exec_simulates), a re-layout (skippable tokens inserted / removed / resized, case changed) leaves that stream unchanged, hence the same roles are assigned and one re-layout is rejected iff the other is (classifier_relayout_invariant). That the 8 300-line classifier is such a program is not proved: a syntactic scan lists every literal-offset access to the token list against an audited list, and the real parser is run on five meaning-preserving re-layouts of every accepted corpus file (whitespace resize, line split, line join, hostile comments, case change), comparing the class and folded text of every code token.",
  "Trusted: Coq kernel for the navigation theorems; the re-layout mutators (they use VSG's own tokenizer to find whitespace and comments); classifier_offsets.json (audited direct accesses). Delimited-comment text tokens are compared by value by some helpers and are outside the theorem (lines inside delimited comments are left alone by the mutators).",
  "Coq simulation theorem for classifier programs + metamorphic differential on the real parser", "5/C05")

C("C06", "exploration",
  "Partial. Proved in Coq with analyses taken as functions of the rule: the all-phases check analyses exactly blocks(rules) in phase / sub-phase / load order (closed form), disabling a set of rules removes exactly those rules from the analysis (check_disable_exact), and the result is a function of the rule table. That no analysis writes to the file is the hypothesis; it is explored: token classes and texts are snapshotted around an all-phases check of corpus files, the check is repeated, three random disabled sets are compared with the first report minus those rules, the rule list is shuffled (order inside every sub-phase changes), and per-rule snapshots (text, class and attributes) around analyze name any rule that writes.",
  "Trusted: Coq kernel for the scheduler theorems; the in-process harness. Python rule code is explored, not proved.",
  "Coq proof of the scheduler's disable / order algebra + snapshot and permutation exploration of analysis purity", "5/C06")

C("C07", "translation_validation",
  "Translation validation with proved components. Proved: the reported line of a token index is 1 + the number of carriage returns before it (bisect_left model), the changed-lines computation is sound (a listed line differs, an empty list means all lines equal). For every observed application of a whitespace / indent / alignment / case rule the extracted checker computes, on its own reconstruction of the token list, the lines whose text differs; they must be exactly the line numbers of the violations handed to update, the line count must not change and every reported line must lie in the file.",
  TV_NOTE, "extracted changed-lines computation on every observed application of a line-local rule", "5/C07")

C("C08", "translation_validation",
  "Partial proof + differential. Proved (lexical / line level): a token list that is the image of reading some text is reproduced by emitting and reading it again (C08_reread_fixpoint, from emit_read and the tokenizer theorems), regrouping by the role classifier keeps the text. Roles and indent levels are not modelled (set_token_indent): after every observed fix run the emitted text is parsed by the real parser and compared token by token (class, text, indent level) with the in-memory model, the in-memory all-phases report is compared with a fresh check of the re-read file, and the extracted checker names the first rule that leaves two adjacent whitespace tokens.",
  TV_NOTE + " set_token_indent and the role classifier are exercised, not modelled.", "Coq proof of the lexical round trip + re-parse differential after every observed fix run", "5/C08")

C("C09", "translation_validation",
  "Decomposition + differential. Proved: a run in which no rule has a violation to fix performs only empty updates (clean_is_fixpoint); with C08 (re-read = model) and 'no enabled fixable rule reports' a second run is therefore the identity. Both facts and the direct oracle are measured after every observed fix run: up to 2 (thorough 4) further fix runs of the emitted text, cycle detection; a failing case names the fixable rules that still report after the first run.",
  TV_NOTE, "Coq decomposition lemma + repeated real fix runs with cycle detection", "5/C09")

C("C10", "translation_validation",
  "Proved: if what remains after a fix are violations whose repair is the identity on their slice, the second fix is the identity on the whole list (C10_fix_twice, from update_congruence with equality). Probed on the real code: inside phase-ordered fix runs, immediately after every rule application that changed the file, the same rule is analysed again and its fix applied a second time; the emitted text must not change.",
  "Trusted: Coq kernel; the in-process probe (instance-level wrapper around Rule.fix). 'Unable to repair' is decided operationally by the second fix.",
  "Coq lemma + in-run re-application probe of every rule", "5/C10")

C("C12", "proof",
  "process_config_file's merging of the rule section, Rule.configure with its three levels and their exact membership tests (configuration for global, __dict__ for group and rule, option objects at rule level, severity by name through the severity list), rule_list.configure's unknown-rule and deprecated-rule errors, and apply_rules.configure_rules' three passes (main, file_list entry, file_rules entry) are modelled in Coq. Proved for all configurations: what one level does to an attribute (level_spec: last assignment of the entry if the membership test passes, the test itself is stable), the rule's own entry decides whatever was applied before (rule_level_wins - with the pass order this is file_rules > file_list > rule > group > global), a pass that does not mention a rule leaves it alone, unknown and deprecated rule names are rejected, later files win entry by entry. The extracted model is compared with the real merge + configure on random stacks over all 1049 rule objects (every __dict__ value, option object and severity), disagreements are classified by the property's own precedence reading, and CLI runs check that disable / fixable / severity act as configured.",
  "Trusted: Coq kernel, extraction, driver, the interning of strings and values by the harness. 'An option value changes the verdict as documented' is per-rule logic outside this check. Modelled rather than verified: config.py, rule.py configure functions, apply_rules.configure_rules.",
  "Coq proof (unbounded) of the precedence mechanism + extracted-model differential over all rule objects", "5/C12")

C("C17", "proof",
  "Proved on the configuration model: the rule entry -oc writes (every name of rule.configuration with its current value), fed back at rule level to a fresh rule object, restores every such attribute (oc_reconfigure); the severity comes back only if the receiving run knows its name (oc_custom_severity_refuted - the defect repaired in this tree by emitting the severity, skip_phase, file_rules and linesep sections). Through the CLI: for {no style, jcl, indent_only} x random stacks (levels, user-defined severities, skip_phase) the emitted file is emitted again (must be identical) and the all-phases report and --fix text of corpus files are compared under the original and the emitted configuration.",
  "Trusted: Coq kernel; CLI harness. 'Same violations on every input' is explored on sampled files, not proved (it depends on every rule reading only its configurable attributes).",
  "Coq proof of the attribute round trip + CLI round-trip differential", "5/C17")

C("C18", "translation_validation",
  "Proved: the index model holds position p under a key exactly when the token at p files itself under it, with the three aliases (index_spec), positions are increasing, the line lookup is a count of carriage returns, and update overwrites the analysed slices and nothing else (closed form). Observed on the real code at every _get_tokens_of_interest of every rule in the shared fix runs: oTokenMap.dMap equals process_tokens(list).dMap, every region of interest is object for object the slice at its recorded start; every update is replayed through the extracted model; process_tokens is compared with the extracted index on corpus files.",
  TV_NOTE, "Coq proof of index / update + identity-level observation at every analysis point", "5/C18")

C("C19", "exploration",
  "Exploration with proved components. Proved: the tokenizer's two while loops never exhaust their fuel (create_total), reading is total, the batch loop goes on after a rejected file. Totality of ~960 Python rules and of the classifier cannot be proved here: every observed fix run of the shared trace (every enabled rule analysed and fixed on every selected file under default / jcl / indent_only) must end without an exception, and malformed variants are pushed through the CLI under a watchdog: accepted, or exactly one located message, exit 1, next file still processed.",
  "Trusted: the harness; a 600 s watchdog stands for 'does not hang'.", "crash / hang exploration over the corpus with proved loop-termination components", "5/C19")

NA_REASON = "check not built yet in this round (see DESIGN.md section 10 build order); nothing is claimed for it"
ALL = ["C%02d" % i for i in range(1, 21)]
# oracles and input families added after fresh agents' seeded changes were missed (DESIGN 11.6)
ADDENDA = {
 "C01": " Also evaluated after every application: no two code tokens touch so that the emitted text reads them as one lexical element (glue_free). Inputs include letter-case, pragma, comp_off and squeezed variants, documented indentation configurations, combined prefix / suffix exceptions and every default-disabled rule switched on. An end name added by the run must repeat the name its construct starts with (nesting followed per token module).",
 "C02": " Removers of trailing comments must only drop trailing comments (edit_trailing, judged in the context of the whole list; theorem C02_trailing_removers_keep_own_line_comments).",
 "C04": " Through the CLI also: files that are violation free because every rule is disabled or the whole file is inside vsg_off must keep bytes, inode and mtime under --fix.",
 "C06": " Also: a disable / re-enable history on the rule list object that has already checked the file, and a pass with the about 80 default-disabled rules switched on with per-rule attribute snapshots.",
 "C07": " Also: the report of a plain check of the same input against what the fix run does while the token list is still the input's; fixes that change no line although lines were reported.",
 "C08": " Proved in addition: what the reader returns has the reader shape (no empty line, blank_line alone, no empty whitespace), a model that re-reads as itself must have it, the repaired phase-1 normaliser leaves every blank_line alone on its line. The extracted checker names the rule application after which the shape is lost. Also compared: a second indent pass on the unchanged list, and through the CLI the report of `vsg --fix` against a plain run on the written file under configurations with unrepaired and warning-severity rules.",
 "C09": " Proved in addition: on what the reader returns for a text without trailing whitespace both normalisers are the identity (C09_second_run_normalisation_is_identity); without hypothesis idempotence is refuted (adjacent whitespace objects).",
 "C11": " The wrapped-file test also runs under global configurations (user_error_message, severity, indent_size).",
 "C13": " The skip set the configuration file asks for is the reference, not the set VSG derived from it.",
 "C15": " Batches also contain neighbours that end inside an open comp_off / translate_off region, delimited comment or vsg_off region, and every third batch loads the repository's example local rules.",
 "C16": " The CLI part also runs --fix --backup over an older / same-age / newer backup left by an earlier run.",
 "C17": " Per-file keys and -f names are also spelled in non-normalised form (./f.vhd, d/../f.vhd).",
 "C18": " Also after every application: no token object stands at two positions of the list (theorem C18_update_keeps_objects_distinct gives the condition under which update preserves this).",
 "C19": " Also: 28 files with lexically awkward comment and statement lines (odd quote counts, quote characters as literals, lone backslashes) through --fix, and files whose first line is malformed.",
 "C20": " Also: several line-local rules listed together with all their lines; every listed violation must be gone afterwards.",
}
for _k, _t in ADDENDA.items():
    CHECKS[_k]["level_claimed"]["text"] += _t

m = dict(version=1, setup_cmd="./bin/setup",
  hooks=dict(guard="VSG_VERIF_OBSERVE", enable="no source hooks: the harness monkeypatches vsg from outside /repo (PYTHONPATH=/repo)", baseline_off_cmd="cd /repo && /venv/bin/python -m pytest -ra -q -p no:cacheprovider --timeout=900 --continue-on-collection-errors", source_commits=[], add_only=True),
  engines=[dict(name="coq-vsg", path="/verif/coq", serves_properties=sorted(CHECKS), kind_free_text="Coq 8.16 models + theorems, extracted to OCaml, tied to /repo by regenerated tables, differential correspondence and verified trace checkers")],
  checks=[CHECKS[k] for k in sorted(CHECKS)],
  notes="see DESIGN.md; known findings in known_findings.json",
  not_applicable=[dict(property_id=p, reason=NA_REASON) for p in ALL if p not in CHECKS])
json.dump(m, open(os.path.join(HERE, "MANIFEST.json"), "w"), indent=1)
print("checks:", sorted(CHECKS))
