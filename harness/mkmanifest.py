# writes MANIFEST.json from the table below (kept in one place so it always validates)
import json, os
HERE = os.path.dirname(os.path.dirname(os.path.abspath(__file__)))
CHECKS = {}
def C(pid, cat, text, note, tech, ref):
    CHECKS[pid] = dict(property_id=pid, quick_cmd="./bin/check %s quick" % pid, thorough_cmd="./bin/check %s thorough" % pid,
        evidence_file="/verif/evidence/%s.json" % pid, replay_cmd_template="./bin/check --replay {path}", engine="coq-vsg",
        level_claimed=dict(category=cat, text=text, design_ref=ref), level_note=note, technique=tech)

C("C04", "proof",
  "Theorems create_lossless / create_total proved in Coq for every string and every symbol table (no bound), instantiated at the tables regenerated from vsg/tokens.py on each run; the hand-written Gallina tokenizer is tied to tokens.create by an exhaustive differential (all strings up to length 4/5 over the 22-symbol delimiter alphabet, every corpus line, random Latin-1) run through the Coq-extracted model and cross-checked by vm_compute; emit(parse(x)) = x and the byte/inode/mtime clause are checked on the real code for every fixture / a CLI sample.",
  "Trusted: Coq kernel, extraction (ExtrOcamlBasic), OCaml driver, the Symbols translator, the harness. Modelled rather than verified: tokens.py, the line-level classifiers. The role classifier enters only through the value-preserving-reclassification hypothesis, which the emit differential checks per file.",
  "Coq proof (unbounded) + regenerated tables + extracted-model differential", "5/C04")

C("C11", "proof",
  "The whole code-tag mechanism is modelled in Coq at string level (comment prefix test, ':' remark cut, whitespace split, the tag state machine with the next-line flag, the stamp-before/after-update order of set_code_tags, has_code_tag, the add_violation filter) and seven theorems are proved for all token lists: all_persists, named_persists, untagged_clean / no_tags_clean, next_line_scope, filter_exact, wrapped_file_silent. The extracted model is tied to /repo by comparing the tag list of every token of tagged corpus files with the model's stamps, and end to end by requiring report(tagged file) = model filter of report(same file with neutral comments); the wrapped-file clause is run through the CLI (empty report, --fix strips trailing whitespace only).",
  "Trusted: Coq kernel, extraction, driver, harness (abstraction of a token to carriage-return / comment / other + value; mapping of a violation to its token positions). Modelled rather than verified: code_tags.py, set_code_tags, has_code_tag. Rules enter through their observed violations only.",
  "Coq proof (unbounded) of the tag state machine + extracted-model differential + metamorphic report filter", "5/C11")

C("C13", "proof",
  "check_rules (per-sub-phase loop, cumulative failure counter, sticky flag, break) and the call sequence of rule_list.fix (phase range, skip list, sub-phases, disabled filter, prerequisite ordering, severity test, indent / normalisation calls) are modelled in Coq; proved for all rule tables, phase assignments, skip sets and violation counts: the gated run analyses exactly the all-phases run's rules of phases <= the stop phase (gated_is_prefix), the same for the reported violations (gated_report_is_prefix), the flag is set iff an error-type violation was counted, skipped phases / disabled rules / phases outside 1..7 are never analysed, and Rule.fix is only called for enabled error-typed rules of non-skipped phases 1..fix_phase. The extracted scheduler is tied to /repo by predicting, from the configured rule objects, the exact sequence of Rule.fix / Rule.analyze / set_token_indent / normalisation calls of real apply_rules runs (real argparse + config glue) under random phase re-assignments, disables, severities, skip_phase and --fix_phase, and the property is additionally evaluated on the real reports alone.",
  "Trusted: Coq kernel, extraction, driver, observers (instance-level wrappers installed from outside /repo). Assumes analyses are read-only (C06) when the -ap run's violation counts predict the gated run. Modelled rather than verified: rule_list.py scheduling code.",
  "Coq proof (unbounded) of the scheduler + extracted-model prediction of observed call sequences", "5/C13")

C("C20", "proof",
  "Rule._filter_out_fix_only_violations (including its exception-driven paths) and Rule.fix's fixable guard are modelled in Coq; filter_spec, fix_only_all_is_fix, fix_only_empty_is_identity and fixed_only_selected are proved for all dictionaries and violation lists. The extracted filter is compared with the real method on random dictionaries (missing keys, 'all', duplicates, unfixable rules), and the three CLI clauses are run on corpus files: every rule with 'all' = plain --fix, an empty selection leaves bytes and inode untouched, a case / whitespace rule listed for half of its reported lines changes exactly / at most those lines.",
  "Trusted: Coq kernel, extraction, driver, harness. Modelled rather than verified: rule.py filter. 'line-local rule' is read as case / whitespace group rules.",
  "Coq proof (unbounded) of the filter + extracted-model differential + CLI metamorphic runs", "5/C20")

C("C14", "proof",
  "The report projections of one file (rows, stable sort by line, total and per-severity counts, JUnit filter, JSON / quality-report list, summary verdict, per-file status) and main's OR over files are modelled in Coq; proved for all violation sets and severity assignments: the table is a stably sorted permutation of the JSON list, total = number of rows, per-severity counts add up, JUnit = exactly the error-type rows, file status <-> an error-type row is listed, summary verdict = not status, process exit 0 <-> every file processed and no error-type row (exit_zero_iff); summary_by_name_refuted records the defect repaired in 13df738. The extracted model predicts, from the JSON file of real CLI runs (batches with rejected files, user-defined error / warning severities at rule, group and global level, gated and -ap), the vsg table, counts, JUnit text, quality report, syntastic lines, summary line and routing, and the exit code, which are compared with the real artefacts.",
  "Trusted: Coq kernel, extraction, driver, the harness parsers of the six artefacts. The JSON file is the carrier of the violation set (its agreement with rule.violations is part of C13's observed runs). Modelled rather than verified: rule_list report functions, report/*.py, junit.py.",
  "Coq proof (unbounded) of the report projections + extracted-model prediction of CLI artefacts", "5/C14")

C("C16", "proof",
  "write_vhdl_file (stat, open/truncate of the .tmp file with its mode rules, write, close, chmod, atomic replace, the except PermissionError / finally remove structure), create_backup_file and the early returns of apply_rules are modelled over an abstract file system with, at every OS call, a crash, a crash or error in the middle of the write, PermissionError or another OSError. Proved for every schedule, umask and stale .tmp file: the target holds the original or the complete fixed content with the original mode (writeback_atomic, apply_rules_atomic), the .tmp file is removed whenever the process survives and remove works, a completed backup is the original and is never touched again, rejected / misconfigured files are untouched. The extracted model is compared with the real function on the complete single-fault and (fault, fault-in-finally) schedule space per environment (mode x umask x stale tmp), each run a subprocess under an OS-call shim with real SIGKILL; the property is also evaluated on each real outcome alone, and the CLI clauses (mode kept, --backup faithful, rejected and misconfigured files untouched) are run.",
  "Trusted: Coq kernel, extraction, driver, the OS-call shim (wb_exec.py) and its mapping of calls to model steps (a changed call sequence is itself reported). Assumes POSIX rename atomicity and that a killed process leaves the effects of completed calls intact; torn writes inside one os.replace are outside the model.",
  "Coq proof (all schedules) + exhaustive fault enumeration against the real function", "5/C16")

C("C15", "exploration",
  "Partial. Proved in Coq (all file lists, all worker completion orders, any job count): the results handed to main's aggregation by the Pool.imap loop are those of the sequential loop - apply_rules of each file in command-line order up to and including the first stop - and the exit status is their OR (results_independent, no_stop_all, exit_status_or). These theorems assume apply_rules is a pure function of the file; that purity (module globals, the shared configuration object mutated by per-file overrides, worker processes handling several files) is runtime behaviour no theorem here exhibits, so it is explored: batches with rejected files and per-file file_rules overrides are run in several orders and job counts, in check and --fix mode, and every part of every file's result (report block, JSON entry, JUnit case, error line, fixed text, exit contribution, output order) is compared with the single-file -p 1 run; --stdin is compared with by-name.",
  "Trusted: Coq kernel for the scheduler theorems; the CLI differential harness. multiprocessing, pickling of the configuration per task and OS scheduling are exercised, not modelled.",
  "Coq proof of the job loop + CLI differential exploration of cross-file purity", "5/C15")

NA_REASON = "check not built yet in this round (see DESIGN.md section 10 build order); nothing is claimed for it"
ALL = ["C%02d" % i for i in range(1, 21)]
m = dict(version=1, setup_cmd="./bin/setup",
  hooks=dict(guard="VSG_VERIF_OBSERVE", enable="no source hooks: the harness monkeypatches vsg from outside /repo (PYTHONPATH=/repo)", baseline_off_cmd="cd /repo && /venv/bin/python -m pytest -ra -q -p no:cacheprovider --timeout=900 --continue-on-collection-errors", source_commits=[], add_only=True),
  engines=[dict(name="coq-vsg", path="/verif/coq", serves_properties=sorted(CHECKS), kind_free_text="Coq 8.16 models + theorems, extracted to OCaml, tied to /repo by regenerated tables, differential correspondence and verified trace checkers")],
  checks=[CHECKS[k] for k in sorted(CHECKS)],
  notes="see DESIGN.md; known findings in known_findings.json",
  not_applicable=[dict(property_id=p, reason=NA_REASON) for p in ALL if p not in CHECKS])
json.dump(m, open(os.path.join(HERE, "MANIFEST.json"), "w"), indent=1)
print("checks:", sorted(CHECKS))
