# fixture corpus: every .vhd under REPO/tests
import os, glob
import vlib


def files():
    fs = sorted(glob.glob(os.path.join(vlib.REPO, "tests", "**", "*.vhd"), recursive=True))
    return fs


def minimised():
    """inputs that exposed a failure before (seeded changes, earlier findings): every tier runs them first"""
    return sorted(glob.glob(os.path.join(vlib.VERIF, "corpus_min", "*.vhd")))


def read_lines(path):
    with open(path, encoding="utf-8", errors="surrogateescape") as f:
        return f.read().split("\n")


def sample(n, tag, pool=None):
    fs = pool if pool is not None else files()
    if n >= len(fs):
        return list(fs)
    r = vlib.rng(tag)
    return sorted(r.sample(fs, n))
