From Coq Require Import List Bool Arith Lia Permutation.
Import ListNotations.
Require Import Jobs.

Section P.
Variable F R : Type.
Variable f : F -> R.
Variable stop status : R -> bool.

Lemma lookup_complete files order i x : In i order -> nth_error files i = Some x ->
  lookup R i (complete F R f files order) = Some (f x).
Proof.
  intros Hin Hn. unfold complete. induction order as [|j r IH]; [destruct Hin|].
  cbn [flat_map]. destruct (Nat.eq_dec i j) as [->|Hne].
  - rewrite Hn. cbn. now rewrite Nat.eqb_refl.
  - destruct Hin as [E|Hin]; [congruence|].
    destruct (nth_error files j); cbn; [|now apply IH].
    destruct (Nat.eqb_spec i j); [congruence|now apply IH].
Qed.

Lemma collect_all files order : (forall i, i < length files -> In i order) ->
  forall n i, i + n = length files ->
  collect R (complete F R f files order) n i = map f (skipn i files).
Proof.
  intros Hall n. induction n as [|n IH]; intros i Hi.
  - rewrite skipn_all2 by lia. reflexivity.
  - cbn [collect]. destruct (nth_error files i) as [x|] eqn:E.
    + rewrite (lookup_complete files order i x (Hall i ltac:(lia)) E).
      rewrite IH by lia.
      assert (S : skipn i files = x :: skipn (S i) files).
      { clear -E. revert i E. induction files as [|a l IHl]; intros [|i] E; cbn in *; try discriminate.
        - now inversion E.
        - now apply IHl. }
      rewrite S. reflexivity.
    + apply nth_error_None in E. lia.
Qed.

(* C15: whatever the number of workers and the order in which they finish, the results handed to the
   aggregation are those of the sequential loop: apply_rules of each file, in command-line order, up to and
   including the first file that asks to stop *)
Theorem results_independent files order : (forall i, i < length files -> In i order) ->
  main_pool F R f stop files order = main_seq F R f stop files.
Proof.
  intros H. unfold main_pool, main_seq. f_equal.
  rewrite (collect_all files order H (length files) 0) by lia. reflexivity.
Qed.

Corollary results_independent_perm files order : Permutation order (seq 0 (length files)) ->
  main_pool F R f stop files order = main_seq F R f stop files.
Proof.
  intros P. apply results_independent. intros i Hi.
  eapply Permutation_in; [symmetry; exact P|]. apply in_seq. lia.
Qed.

(* each file's entry is apply_rules of that file alone; order is command-line order *)
Theorem through_stop_prefix l : exists rest, l = through_stop R stop l ++ rest.
Proof.
  induction l as [|x r [rest IH]]; [exists []; reflexivity|]. cbn.
  destruct (stop x); [exists r; reflexivity|]. exists rest. cbn. now rewrite <- IH.
Qed.

Theorem no_stop_all files : forallb (fun x => negb (stop (f x))) files = true ->
  main_seq F R f stop files = map f files.
Proof.
  unfold main_seq. induction files as [|x r IH]; [reflexivity|]. cbn. intros H.
  apply andb_prop in H. destruct H as [H1 H2]. apply negb_true_iff in H1. rewrite H1. f_equal. now apply IH.
Qed.

(* C15, "alone or with other files, first or last": the entry at position i of a batch is apply_rules of the
   i-th file of the command line and nothing else - it is the whole result of running that file alone *)
Theorem entry_is_single_run files i r : nth_error (main_seq F R f stop files) i = Some r ->
  exists x, nth_error files i = Some x /\ r = f x /\ main_seq F R f stop [x] = [r].
Proof.
  unfold main_seq. revert i. induction files as [|y l IH]; intros i H.
  - destruct i; discriminate.
  - cbn [map through_stop] in H. destruct i as [|i].
    + exists y. assert (E : r = f y) by (destruct (stop (f y)); cbn in H; congruence).
      subst r. repeat split. cbn. now destruct (stop (f y)).
    + destruct (stop (f y)) eqn:S.
      * cbn in H. destruct i; discriminate.
      * cbn [nth_error] in H. destruct (IH i H) as [x [Hx [Hr Hs]]]. exists x. now repeat split.
Qed.

(* neighbours: two batches that have the same file at position i report the same entry for it, whatever
   stands before or after it (as long as both batches get that far) *)
Corollary neighbours_irrelevant files files' i r r' :
  nth_error files i = nth_error files' i ->
  nth_error (main_seq F R f stop files) i = Some r ->
  nth_error (main_seq F R f stop files') i = Some r' -> r = r'.
Proof.
  intros E H H'. destruct (entry_is_single_run _ _ _ H) as [x [Hx [-> _]]].
  destruct (entry_is_single_run _ _ _ H') as [x' [Hx' [-> _]]]. congruence.
Qed.

(* outputs appear in command-line order: the batch output is a prefix of the per-file results in that order,
   and it is cut only directly after a file that asked to stop *)
Theorem seq_is_prefix_in_order files : exists rest,
  map f files = main_seq F R f stop files ++ rest /\
  (rest <> [] -> existsb stop (main_seq F R f stop files) = true).
Proof.
  unfold main_seq. induction (map f files) as [|x r [rest [IH1 IH2]]].
  - exists []. split; [reflexivity|]. intros C; now destruct C.
  - cbn. destruct (stop x) eqn:S.
    + exists r. split; [reflexivity|]. intros _. cbn. now rewrite S.
    + exists rest. split; [cbn; now rewrite <- IH1|]. intros C. cbn. now rewrite S, (IH2 C).
Qed.

(* the aggregated exit status does not depend on the order in which the results were gathered *)
Theorem exit_status_perm rs rs' : Permutation rs rs' -> exit_status R status rs = exit_status R status rs'.
Proof.
  intros P. unfold exit_status. destruct (existsb status rs) eqn:E1; destruct (existsb status rs') eqn:E2; try reflexivity.
  - apply existsb_exists in E1. destruct E1 as [x [Hin Hx]].
    assert (existsb status rs' = true) by (apply existsb_exists; exists x; split; [eapply Permutation_in; eauto|exact Hx]). congruence.
  - apply existsb_exists in E2. destruct E2 as [x [Hin Hx]].
    assert (existsb status rs = true) by (apply existsb_exists; exists x; split; [eapply Permutation_in; [symmetry; eauto|eauto]|exact Hx]). congruence.
Qed.

Theorem exit_status_or rs : exit_status R status rs = true <-> exists x, In x rs /\ status x = true.
Proof. unfold exit_status. apply existsb_exists. Qed.
End P.

Example jobs_example :
  main_pool nat nat (fun x => x * 10) (fun r => Nat.eqb r 30) [1; 2; 3; 4] [3; 0; 2; 1] = [10; 20; 30] /\
  main_seq nat nat (fun x => x * 10) (fun r => Nat.eqb r 30) [1; 2; 3; 4] = [10; 20; 30].
Proof. vm_compute. split; reflexivity. Qed.

(* non-vacuity of entry_is_single_run / neighbours_irrelevant: position 1 of two different batches *)
Example entry_example :
  nth_error (main_seq nat nat (fun x => x * 10) (fun r => Nat.eqb r 30) [1; 2; 3; 4]) 1 = Some 20 /\
  nth_error (main_seq nat nat (fun x => x * 10) (fun r => Nat.eqb r 30) [7; 2]) 1 = Some 20 /\
  main_seq nat nat (fun x => x * 10) (fun r => Nat.eqb r 30) [2] = [20].
Proof. vm_compute. repeat split; reflexivity. Qed.

(* C19: a rejected file (its result carries a failing status and does not ask to stop) makes the batch exit with
   status 1 and every remaining file is still processed *)
Theorem rejected_file_fails_batch F R (f : F -> R) (stop status : R -> bool) files x :
  forallb (fun y => negb (stop (f y))) files = true -> In x files -> status (f x) = true ->
  main_seq F R f stop files = map f files /\ exit_status R status (main_seq F R f stop files) = true.
Proof.
  intros Hns Hin Hst. rewrite (no_stop_all F R f stop files Hns). split; [reflexivity|].
  apply exit_status_or. exists (f x). split; [now apply in_map|exact Hst].
Qed.
