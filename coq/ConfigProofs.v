From Coq Require Import List Bool Arith Lia.
Import ListNotations.
Require Import Config.

Section P.
Variable SEV : key.
Variable sevlist : list nat.
Notation assign := (assign SEV sevlist).
Notation configure_global := (configure_global SEV sevlist).
Notation configure_group := (configure_group SEV sevlist).
Notation configure_rule := (configure_rule SEV sevlist).
Notation rule_configure := (rule_configure SEV sevlist).
Notation rl_configure := (rl_configure SEV sevlist).

(* the last value an entry gives to attribute a *)
Fixpoint last_assoc (a : key) (e : entry) : option value :=
  match e with
  | [] => None
  | (k, v) :: r => match last_assoc a r with Some w => Some w | None => if Nat.eqb k a then Some v else None end
  end.

Lemma get_set_key a k v d : get_key a (set_key k v d) = if Nat.eqb k a then Some v else get_key a d.
Proof.
  induction d as [|[k' v'] r IH]; cbn.
  - destruct (Nat.eqb k a); reflexivity.
  - destruct (Nat.eqb k' k) eqn:E; cbn.
    + apply Nat.eqb_eq in E. subst k'. destruct (Nat.eqb k a); reflexivity.
    + rewrite IH. destruct (Nat.eqb k' a) eqn:E2; [|reflexivity].
      apply Nat.eqb_eq in E2. subst k'. rewrite Nat.eqb_sym in E. rewrite E. reflexivity.
Qed.

Lemma has_set_key a k v d : has_key k d = true -> has_key a (set_key k v d) = has_key a d.
Proof.
  unfold has_key. induction d as [|[k' v'] r IH]; cbn [existsb set_key fst]; [discriminate|].
  destruct (Nat.eqb k' k) eqn:E.
  - apply Nat.eqb_eq in E. subst. intros _. cbn [existsb fst]. reflexivity.
  - cbn [orb existsb fst]. intros H. rewrite IH by exact H. reflexivity.
Qed.

(* a level whose membership test does not change while its entry is applied *)
Definition stable (applies : robj -> key -> bool) : Prop :=
  forall o k v k', applies o k = true -> applies (set_dict o k v) k' = applies o k'.
Definition sev_blind (applies : robj -> key -> bool) : Prop :=
  forall o n k, applies (set_sev sevlist o n) k = applies o k.

Lemma fold_assign_spec applies (Hst : stable applies) (Hsv : sev_blind applies) a e : a <> SEV -> forall o,
  let o' := fold_left (assign applies) e o in
  get_key a (o_dict o') = (match last_assoc a e with
                           | Some v => if applies o a then Some v else get_key a (o_dict o)
                           | None => get_key a (o_dict o) end)
  /\ (forall k, applies o' k = applies o k).
Proof.
  intros Ha. induction e as [|[k v] r IH]; intros o; cbn [fold_left last_assoc].
  - split; reflexivity.
  - set (o1 := assign applies o (k, v)).
    assert (S1 : forall k', applies o1 k' = applies o k').
    { intros k'. unfold o1, Config.assign. destruct (Nat.eqb k SEV); [apply Hsv|].
      destruct (applies o k) eqn:E; [now apply Hst|reflexivity]. }
    assert (G1 : get_key a (o_dict o1) = if Nat.eqb k a && applies o k && negb (Nat.eqb k SEV) then Some v else get_key a (o_dict o)).
    { unfold o1, Config.assign. destruct (Nat.eqb k SEV) eqn:Es; cbn.
      - now rewrite andb_false_r.
      - destruct (applies o k); cbn; [|now rewrite andb_false_r].
        rewrite get_set_key. destruct (Nat.eqb k a); reflexivity. }
    destruct (IH o1) as [IH1 IH2]. split.
    + cbv zeta in IH1. rewrite IH1. destruct (last_assoc a r) as [w|].
      * rewrite S1. destruct (applies o a) eqn:Ea; [reflexivity|]. rewrite G1.
        destruct (Nat.eqb k a) eqn:E; [|reflexivity]. apply Nat.eqb_eq in E. subst k. now rewrite Ea.
      * rewrite G1. destruct (Nat.eqb k a) eqn:E; [|reflexivity].
        apply Nat.eqb_eq in E. subst k. assert (Nat.eqb a SEV = false) as -> by now apply Nat.eqb_neq.
        cbn. destruct (applies o a); reflexivity.
    + intros k'. cbv zeta in IH2. now rewrite IH2, S1.
Qed.

Lemma in_conf_stable : stable in_conf /\ sev_blind in_conf.
Proof. split; unfold stable, sev_blind; intros; reflexivity. Qed.
Lemma in_dict_stable : stable in_dict /\ sev_blind in_dict.
Proof.
  split; unfold stable, sev_blind.
  - intros o k v k' H. unfold in_dict in *. cbn. now apply has_set_key.
  - intros o n k. reflexivity.
Qed.

(* C12: what one level does to attribute a of a rule *)
Theorem global_level_spec sec o a : a <> SEV ->
  get_key a (o_dict (configure_global sec o)) =
  match s_global sec with
  | Some e => match last_assoc a e with Some v => if in_conf o a then Some v else get_key a (o_dict o) | None => get_key a (o_dict o) end
  | None => get_key a (o_dict o)
  end.
Proof.
  intros Ha. unfold Config.configure_global. destruct (s_global sec) as [e|]; [|reflexivity].
  apply (fold_assign_spec in_conf (proj1 in_conf_stable) (proj2 in_conf_stable) a e Ha o).
Qed.

(* the rule-level entry wins over everything applied before it (global, group, an earlier configuration pass) *)
Theorem rule_level_wins sec o a v e : a <> SEV ->
  lookup (o_uid o) (s_rules sec) = Some e -> last_assoc a e = Some v -> in_dict o a = true ->
  get_key a (o_dict (configure_rule sec o)) = Some v.
Proof.
  intros Ha Hl Hv Hd. unfold Config.configure_rule. rewrite Hl.
  (* set_opt does not touch the dictionary: the fold is the same as the plain assign fold on o_dict *)
  assert (G : forall e o, o_dict (fold_left (fun o kv => set_opt (assign in_dict o kv) (fst kv) (snd kv)) e o) =
                         o_dict (fold_left (assign in_dict) e o) /\
                         o_uid (fold_left (fun o kv => set_opt (assign in_dict o kv) (fst kv) (snd kv)) e o) = o_uid o).
  { clear. induction e as [|kv r IH]; intros o; [split; reflexivity|]. cbn [fold_left].
    assert (Hd : forall kv o, o_dict (set_opt (assign in_dict o kv) (fst kv) (snd kv)) = o_dict (assign in_dict o kv)) by reflexivity.
    assert (Hi : forall e (o1 o2 : robj), o_dict o1 = o_dict o2 -> o_dict (fold_left (assign in_dict) e o1) = o_dict (fold_left (assign in_dict) e o2)).
    { clear. induction e as [|[k v] r IH]; intros o1 o2 H; [exact H|]. cbn [fold_left]. apply IH.
      unfold Config.assign, in_dict. rewrite H. destruct (Nat.eqb k SEV); [exact H|]. destruct (has_key k (o_dict o2)); cbn; now rewrite ?H. }
    destruct (IH (set_opt (assign in_dict o kv) (fst kv) (snd kv))) as [I1 I2]. split.
    - rewrite I1. apply Hi. apply Hd.
    - rewrite I2. destruct kv as [k v]. unfold Config.assign. destruct (Nat.eqb k SEV); [reflexivity|]. destruct (in_dict o k); reflexivity. }
  destruct (G e o) as [G1 _]. rewrite G1.
  destruct (fold_assign_spec in_dict (proj1 in_dict_stable) (proj2 in_dict_stable) a e Ha o) as [F _].
  cbv zeta in F. rewrite F, Hv, Hd. reflexivity.
Qed.

(* a configuration pass that does not mention the rule, any of its groups, or "global" leaves it alone *)
Theorem untouched_rule_unchanged sec o :
  s_global sec = None -> s_group sec = None -> lookup (o_uid o) (s_rules sec) = None ->
  rule_configure sec o = Some o.
Proof.
  intros H1 H2 H3. unfold Config.rule_configure, Config.configure_rule, Config.configure_group, Config.configure_global.
  rewrite H1, H2, H3. cbn. now rewrite andb_false_r.
Qed.

(* naming a rule that does not exist is a configuration error, not ignored *)
Theorem unknown_rule_rejected sec rules uid e :
  In (uid, e) (s_rules sec) -> ~ In uid (map o_uid rules) -> rl_configure (Some sec) rules = CError.
Proof.
  intros Hin Hn. unfold Config.rl_configure.
  destruct (forallb _ (s_rules sec)) eqn:E; [|reflexivity]. exfalso.
  rewrite forallb_forall in E. specialize (E _ Hin). cbn in E. unfold memn in E. apply existsb_exists in E.
  destruct E as (x & Hx & Ex). apply Nat.eqb_eq in Ex. subst. contradiction.
Qed.

(* ... and so is naming a deprecated rule *)
Theorem deprecated_rule_rejected sec rules o e :
  In o rules -> o_deprecated o = true -> lookup (o_uid o) (s_rules sec) = Some e -> rl_configure (Some sec) rules = CError.
Proof.
  intros Hin Hd Hl. unfold Config.rl_configure. destruct (forallb _ (s_rules sec)); [|reflexivity].
  induction rules as [|x r IH]; [destruct Hin|].
  destruct Hin as [->|Hin].
  - unfold Config.rule_configure. rewrite Hd, Hl. reflexivity.
  - specialize (IH Hin). destruct (rule_configure sec x); [|reflexivity].
    match goal with |- match ?g with COk _ => _ | CError => _ end = _ => change g with ((fix go (l : list robj) : cresult := match l with [] => COk [] | o0 :: r0 => match rule_configure sec o0, go r0 with Some o', COk r' => COk (o' :: r') | _, _ => CError end end) r) end.
    rewrite IH. reflexivity.
Qed.

(* later configuration files override earlier ones, rule entry by rule entry *)
Lemma lookup_put {A} k k' (v : A) m : lookup k (put k' v m) = if Nat.eqb k k' then Some v else lookup k m.
Proof.
  induction m as [|[k2 v2] r IH]; cbn.
  - destruct (Nat.eqb k k'); reflexivity.
  - destruct (Nat.eqb k' k2) eqn:E; cbn.
    + apply Nat.eqb_eq in E. subst k2. destruct (Nat.eqb k k'); reflexivity.
    + rewrite IH. destruct (Nat.eqb k k2) eqn:E2; [|reflexivity]. apply Nat.eqb_eq in E2. subst k2.
      rewrite Nat.eqb_sym in E. now rewrite E.
Qed.
Lemma lookup_none_notin {A} k (m : list (nat * A)) : ~ In k (map fst m) -> lookup k m = None.
Proof.
  induction m as [|[k' v] r IH]; cbn; [reflexivity|]. intros H.
  destruct (Nat.eqb k k') eqn:E; [apply Nat.eqb_eq in E; subst; tauto|]. apply IH. tauto.
Qed.
Theorem later_file_wins a b uid : NoDup (map fst (s_rules b)) ->
  lookup uid (s_rules (merge_section a b)) =
  match lookup uid (s_rules b) with Some e => Some e | None => lookup uid (s_rules a) end.
Proof.
  unfold merge_section. cbn [s_rules]. generalize (s_rules a).
  induction (s_rules b) as [|[k e] r IH]; intros m Hnd; cbn [fold_left lookup]; [reflexivity|].
  cbn [map fst] in Hnd. inversion Hnd as [|? ? Hn Hd]; subst.
  rewrite (IH _ Hd). cbn [fst snd]. rewrite lookup_put.
  destruct (Nat.eqb uid k) eqn:E.
  - apply Nat.eqb_eq in E. subst. now rewrite (lookup_none_notin k r Hn).
  - reflexivity.
Qed.
End P.

Example config_example :
  (* global sets attribute 5 to 1 for everybody, group 7 sets it to 2, the rule entry of rule 3 sets it to 9 *)
  let sec := mksec (Some [(5, 1)]) (Some [(7, [(5, 2)])]) [(3, [(5, 9)])] in
  let r3 := mkrobj 3 [7] [5] [(5, 0)] [] (Some 0) false in
  let r4 := mkrobj 4 [7] [5] [(5, 0)] [] (Some 0) false in
  let r5 := mkrobj 5 [] [5] [(5, 0)] [] (Some 0) false in
  match rl_configure 99 [0; 1] (Some sec) [r3; r4; r5] with
  | COk l => map (fun o => get_key 5 (o_dict o)) l = [Some 9; Some 2; Some 1]
  | CError => False
  end.
Proof. vm_compute. reflexivity. Qed.

(* ---------------- C17: the emitted configuration fed back at rule level ---------------- *)
Section OC.
Variable SEV : key.
Variable sevlist : list nat.

(* the rule entry -oc writes for a rule: every name of rule.configuration with its current value *)
Definition emitted (o : robj) : entry :=
  flat_map (fun k => if Nat.eqb k SEV then (match o_sev o with Some n => [(k, n)] | None => [] end)
                     else match get_key k (o_dict o) with Some v => [(k, v)] | None => [] end) (o_conf o).

Lemma last_assoc_emitted o k v : NoDup (o_conf o) -> In k (o_conf o) -> k <> SEV -> get_key k (o_dict o) = Some v ->
  last_assoc k (emitted o) = Some v.
Proof.
  unfold emitted. intros Hnd Hin Hk Hg. induction (o_conf o) as [|c r IH]; [destruct Hin|].
  inversion Hnd as [|? ? Hn Hd]; subst. cbn [flat_map].
  assert (A : forall e1 e2, last_assoc k (e1 ++ e2) = match last_assoc k e2 with Some w => Some w | None => last_assoc k e1 end).
  { clear. induction e1 as [|[k' v'] e1 IHe]; intros e2; cbn; [destruct (last_assoc k e2); reflexivity|].
    rewrite IHe. destruct (last_assoc k e2); [reflexivity|]. reflexivity. }
  rewrite A. destruct Hin as [->|Hin].
  - (* k is the head: it does not occur in the rest *)
    assert (N : last_assoc k (flat_map (fun k0 => if Nat.eqb k0 SEV then match o_sev o with Some n => [(k0, n)] | None => [] end
                 else match get_key k0 (o_dict o) with Some v0 => [(k0, v0)] | None => [] end) r) = None).
    { clear -Hn. induction r as [|c r IHr]; [reflexivity|]. cbn [flat_map].
      assert (A : forall e1 e2, last_assoc k (e1 ++ e2) = match last_assoc k e2 with Some w => Some w | None => last_assoc k e1 end).
      { clear. induction e1 as [|[k' v'] e1 IHe]; intros e2; cbn; [destruct (last_assoc k e2); reflexivity|].
        rewrite IHe. destruct (last_assoc k e2); reflexivity. }
      rewrite A, IHr by (intros H; apply Hn; now right).
      assert (c <> k) by (intros ->; apply Hn; now left).
      destruct (Nat.eqb c SEV); [destruct (o_sev o)|destruct (get_key c (o_dict o))]; cbn; try reflexivity;
      (destruct (Nat.eqb c k) eqn:E; [apply Nat.eqb_eq in E; congruence|reflexivity]). }
    rewrite N. assert (Nat.eqb k SEV = false) as -> by now apply Nat.eqb_neq. rewrite Hg. cbn. now rewrite Nat.eqb_refl.
  - now rewrite (IH Hd Hin).
Qed.

(* feeding the emitted entry back to a fresh rule object restores every configurable attribute *)
Theorem oc_reconfigure o o0 k v : NoDup (o_conf o) -> In k (o_conf o) -> k <> SEV ->
  get_key k (o_dict o) = Some v -> in_dict o0 k = true -> o_uid o0 = o_uid o ->
  get_key k (o_dict (configure_rule SEV sevlist (mksec None None [(o_uid o, emitted o)]) o0)) = Some v.
Proof.
  intros Hnd Hin Hk Hg Hd Hu. apply (rule_level_wins SEV sevlist _ o0 k v (emitted o) Hk); auto.
  - cbn. rewrite Hu, Nat.eqb_refl. reflexivity.
  - now apply last_assoc_emitted.
Qed.

(* the severity comes back only if the receiving run knows its name: -oc does not emit the severity section *)
Theorem oc_custom_severity_refuted : exists (o o0 : robj),
  o_sev o = Some 7 /\ o_sev (configure_rule 0 [0; 1] (mksec None None [(o_uid o, [(0, 7)])]) o0) = None.
Proof.
  exists (mkrobj 3 [] [0] [] [] (Some 7) false), (mkrobj 3 [] [0] [] [] (Some 0) false). split; reflexivity.
Qed.
End OC.
