(* Model of the code-tag mechanism:
     vhdlFile/code_tags.py (New.update and the comment parsing), vhdlFile.set_code_tags (stamp order),
     parser.item.has_code_tag, violation.New.has_code_tag, Rule.add_violation (the filter).
   Tags and rule ids are strings (list of code points), exactly as in the Python. *)
From Coq Require Import List NArith Bool Arith Lia.
Import ListNotations.
Require Import Tokenizer.

Definition tag := str.
Definition mem (t : tag) (l : list tag) : bool := existsb (str_eqb t) l.
Definition ALL : tag := [97; 108; 108]%N.   (* "all" *)

(* what code_tags.py can see of a token *)
Inductive ckind := CCr | CComment | COther.   (* carriage_return / isinstance parser.comment / anything else *)
Record ctok := ct { ck : ckind; cv : str }.

(* ---- comment text -> tag command ---- *)
Fixpoint prefix (p s : str) : bool :=
  match p, s with
  | [], _ => true
  | a :: p', b :: s' => N.eqb a b && prefix p' s'
  | _ :: _, [] => false
  end.
Definition P_ON : str := [45; 45; 32; 118; 115; 103; 95; 111; 110]%N.                 (* "-- vsg_on" *)
Definition P_OFF : str := [45; 45; 32; 118; 115; 103; 95; 111; 102; 102]%N.           (* "-- vsg_off" *)
Definition P_NEXT : str :=                                                             (* "-- vsg_disable_next_line" *)
  [45; 45; 32; 118; 115; 103; 95; 100; 105; 115; 97; 98; 108; 101; 95; 110; 101; 120; 116; 95; 108; 105; 110; 101]%N.

(* str.split(":")[0] *)
Fixpoint before_colon (s : str) : str :=
  match s with [] => [] | c :: r => if N.eqb c 58 then [] else c :: before_colon r end.
(* str.split(): maximal runs of non-space characters *)
Fixpoint words_aux (s : str) (cur : str) : list str :=
  match s with
  | [] => match cur with [] => [] | _ => [rev cur] end
  | c :: r => if c_isspace c then (match cur with [] => words_aux r [] | _ => rev cur :: words_aux r [] end)
              else words_aux r (c :: cur)
  end.
Definition words (s : str) : list str := words_aux s [].
(* lValues[2:] and the bare test len(lValues) == 2 *)
Definition tag_args (v : str) : bool * list tag :=
  let w := words (before_colon v) in (Nat.eqb (length w) 2, skipn 2 w).

Inductive cmd := KCr | KOn (bare : bool) (ids : list tag) | KOff (bare : bool) (ids : list tag)
               | KNext (ids : list tag) | KOther.
Definition parse (t : ctok) : cmd :=
  match ck t with
  | CCr => KCr
  | COther => KOther
  | CComment =>
      if prefix P_ON (cv t) then let '(b, ids) := tag_args (cv t) in KOn b ids
      else if prefix P_OFF (cv t) then let '(b, ids) := tag_args (cv t) in KOff b ids
      else if prefix P_NEXT (cv t) then KNext (snd (tag_args (cv t)))
      else KOther
  end.

(* ---- code_tags.New ---- *)
Record st := mkst { tags : list tag; next_tags : list tag; ignore_cr : bool }.
Definition st0 := mkst [] [] false.

Definition add (t : tag) (l : list tag) : list tag := if mem t l then l else l ++ [t].
Fixpoint remove1 (t : tag) (l : list tag) : list tag :=   (* list.remove: first occurrence, guarded by `in` *)
  match l with [] => [] | x :: r => if str_eqb t x then r else x :: remove1 t r end.
Definition get_tags (s : st) : list tag := tags s ++ next_tags s.

Definition update (s : st) (c : cmd) : st :=
  match c with
  | KCr => if ignore_cr s then mkst (tags s) (next_tags s) false else mkst (tags s) [] false
  | KOn true _ => mkst [] [] (ignore_cr s)
  | KOn false ids => mkst (fold_left (fun l i => remove1 i l) ids (tags s)) (next_tags s) (ignore_cr s)
  | KOff true _ => mkst [ALL] [] (ignore_cr s)
  | KOff false ids => mkst (fold_left (fun l i => add i l) ids (tags s)) (next_tags s) (ignore_cr s)
  | KNext ids => mkst (tags s) (fold_left (fun l i => add i l) ids (next_tags s)) true
  | KOther => s
  end.

(* vhdlFile.set_code_tags: the tag list copied onto every token. vsg_on: stamp, then update; vsg_off and
   next-line: update, then stamp; everything else: stamp, then update. *)
Fixpoint stamp_cmds (s : st) (l : list cmd) : list (list tag) :=
  match l with
  | [] => []
  | c :: r =>
      match c with
      | KOff _ _ | KNext _ => let s' := update s c in get_tags s' :: stamp_cmds s' r
      | _ => get_tags s :: stamp_cmds (update s c) r
      end
  end.
Definition stamp (l : list ctok) : list (list tag) := stamp_cmds st0 (map parse l).

(* parser.item.has_code_tag *)
Definition has_code_tag (tl : list tag) (rule : tag) : bool := mem ALL tl || mem rule tl.

(* violation.New.has_code_tag over the stamps of the violation's tokens; Rule.add_violation keeps a violation
   iff it is false *)
Definition violation_suppressed (stamps : list (list tag)) (rule : tag) : bool :=
  existsb (fun tl => has_code_tag tl rule) stamps.
Definition add_violations {V} (toks_of : V -> list (list tag)) (rule : tag) (vs : list V) : list V :=
  filter (fun v => negb (violation_suppressed (toks_of v) rule)) vs.
