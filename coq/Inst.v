(* the models instantiated at the tables regenerated from /repo *)
From Coq Require Import List NArith.
Import ListNotations.
Require Import Tokenizer Symbols Lines.

Definition vsg_read (ls : list str) : option (list tok) := read vsg_create ls.
Definition kind_code (k : kind) : N :=
  match k with KItem => 0 | KWs => 1 | KComment => 2 | KDBegin => 3 | KDText => 4 | KDEnd => 5
             | KPrep => 6 | KBlank => 7 | KCr => 8 end%N.
Definition kind_of_code (n : N) : kind :=
  match n with 1 => KWs | 2 => KComment | 3 => KDBegin | 4 => KDText | 5 => KDEnd | 6 => KPrep
             | 7 => KBlank | 8 => KCr | _ => KItem end%N.
