From Coq Require Import List NArith Bool Arith Lia.
Import ListNotations.
Require Import Tokenizer Lines LinesProofs Shape.

(* ---- a property of single objects that the comment pass keeps ---- *)
Section Keep.
Variable P : tok -> Prop.
Hypothesis PText : forall v, P (mk KDText v).
Hypothesis PComment : forall v, P (mk KComment v).
Hypothesis PBegin : forall v, P (mk KDBegin v).
Hypothesis PEnd : forall v, P (mk KDEnd v).

Lemma Forall_last_P l d : Forall P l -> P d -> P (last l d).
Proof.
  induction l as [|a l IH]; cbn; intros H Hd; [exact Hd|].
  inversion H; subst. destruct l; [assumption|]. apply IH; assumption.
Qed.

Lemma Forall_firstn_P n : forall l, Forall P l -> Forall P (firstn n l).
Proof. induction n; intros l H; cbn; [constructor|]. destruct l; [constructor|]. inversion H; subst. constructor; auto. Qed.
Lemma Forall_skipn_P n : forall l, Forall P l -> Forall P (skipn n l).
Proof. induction n; intros l H; cbn; [assumption|]. destruct l; [constructor|]. inversion H; subst. auto. Qed.

Lemma cc_keeps rest : forall inside done, Forall P done -> Forall P rest -> Forall P (fst (cc inside done rest)).
Proof.
  induction rest as [|t r IH]; intros inside done Hd Hr; cbn [cc].
  - cbn. now apply Forall_rev.
  - inversion Hr as [|? ? Ht Hr']; subst.
    set (t1 := if inside then mk KDText (tv t) else t).
    assert (Hc1 : P t1) by (unfold t1; destruct inside; [apply PText|exact Ht]).
    destruct (negb inside && starts2 DASH DASH (tv t1)).
    + cbn [fst]. apply Forall_app. split; [now apply Forall_rev|].
      constructor; [apply PComment|].
      destruct (s_isspace _); [|constructor].
      constructor; [|constructor]. apply Forall_last_P; assumption.
    + set (opening := negb inside && str_eqb (tv t1) s_open).
      set (t2 := if opening then mk KDBegin (tv t1) else t1).
      assert (Hc2 : P t2) by (unfold t2; destruct opening; [apply PBegin|exact Hc1]).
      destruct ((inside || opening) && str_eqb (tv t2) s_close).
      * apply IH; [constructor; [apply PEnd|assumption]|assumption].
      * destruct done as [|p d].
        -- apply IH; [constructor; [assumption|constructor]|assumption].
        -- inversion Hd; subst.
           destruct ((inside || opening) && str_eqb (tv t2) s_slash && ends_star (tv p)).
           ++ apply IH; [|assumption]. constructor; [apply PEnd|]. constructor; [apply PText|assumption].
           ++ apply IH; [|assumption]. constructor; [assumption|]. constructor; assumption.
Qed.

Lemma merge_text_keeps l : Forall P l -> Forall P (merge_text l).
Proof.
  intros H. unfold merge_text.
  destruct (first_text l 0); [|assumption].
  destruct (last_text l 0 None); [|assumption].
  destruct (Nat.ltb _ _); [|assumption].
  apply Forall_app. split; [now apply Forall_firstn_P|].
  constructor; [apply PText|now apply Forall_skipn_P].
Qed.
End Keep.

(* ---- the comment pass and the text merge never empty a line ---- *)
Lemma cc_nonempty rest : forall inside done, done <> [] \/ rest <> [] -> fst (cc inside done rest) <> [].
Proof.
  induction rest as [|t r IH]; intros inside done H; cbn [cc].
  - cbn [fst]. destruct H as [H|H]; [|congruence]. intros E. apply H.
    rewrite <- (rev_involutive done), E. reflexivity.
  - set (t1 := if inside then mk KDText (tv t) else t).
    destruct (negb inside && starts2 DASH DASH (tv t1)).
    + cbn [fst]. intros E. apply app_eq_nil in E. destruct E as [_ E]. discriminate.
    + set (opening := negb inside && str_eqb (tv t1) s_open).
      set (t2 := if opening then mk KDBegin (tv t1) else t1).
      destruct ((inside || opening) && str_eqb (tv t2) s_close).
      * apply IH. left. discriminate.
      * destruct done as [|p d].
        -- apply IH. left. discriminate.
        -- destruct ((inside || opening) && str_eqb (tv t2) s_slash && ends_star (tv p)); apply IH; left; discriminate.
Qed.

Lemma merge_text_nonempty l : l <> [] -> merge_text l <> [].
Proof.
  intros H. unfold merge_text.
  destruct (first_text l 0); [|assumption].
  destruct (last_text l 0 None); [|assumption].
  destruct (Nat.ltb _ _); [|assumption].
  intros E. apply app_eq_nil in E. destruct E as [_ E]. discriminate.
Qed.

(* ---- one line ---- *)
Definition good (t : tok) : Prop := is_blank t = false /\ ws_nonempty t = true.

Lemma good_new k v : k <> KBlank -> k <> KWs -> good (mk k v).
Proof. intros H1 H2. split; unfold is_blank, ws_nonempty, is_ws; cbn [tk]; destruct k; try congruence; reflexivity. Qed.

Lemma ws_kind_nonempty s : ws_kind s = true -> s <> [].
Proof. intros H E. subst. discriminate. Qed.

Lemma good_initial toks : Forall good (map (fun s => mk (if ws_kind s then KWs else KItem) s) toks).
Proof.
  induction toks as [|s r IH]; cbn [map]; constructor; [|exact IH].
  destruct (ws_kind s) eqn:E.
  - split; [reflexivity|]. unfold ws_nonempty, is_ws. cbn [tk tv kind_eqb andb].
    destruct s; [discriminate E|reflexivity].
  - apply good_new; discriminate.
Qed.

Lemma line_ok_good objs : objs <> [] -> Forall good objs -> line_ok objs = true.
Proof.
  intros Hn H. destruct objs as [|a [|b r]]; [congruence|reflexivity|].
  unfold line_ok. apply negb_true_iff. apply not_true_is_false. intros E.
  apply existsb_exists in E. destruct E as [x [Hin Hx]].
  rewrite Forall_forall in H. destruct (H x Hin) as [Hb _]. congruence.
Qed.

Lemma classify_line_shape inside toks :
  line_ok (fst (classify_line inside toks)) = true /\ forallb ws_nonempty (fst (classify_line inside toks)) = true.
Proof.
  unfold classify_line.
  destruct toks as [|s0 ss].
  - destruct inside; cbn; split; reflexivity.
  - set (toks := s0 :: ss).
    set (objs0 := map _ toks).
    destruct (cc inside [] objs0) as [objs2 inside'] eqn:E.
    assert (G2 : Forall good objs2).
    { change objs2 with (fst (objs2, inside')). rewrite <- E.
      apply cc_keeps; try (intros v; apply good_new; discriminate); [constructor|apply good_initial]. }
    assert (N2 : objs2 <> []).
    { change objs2 with (fst (objs2, inside')). rewrite <- E. apply cc_nonempty. right. unfold objs0, toks. cbn. discriminate. }
    cbn [fst].
    destruct (prep_line toks).
    + split; reflexivity.
    + assert (G3 : Forall good (merge_text objs2)).
      { apply merge_text_keeps; [intros v; apply good_new; discriminate|exact G2]. }
      split.
      * apply line_ok_good; [now apply merge_text_nonempty|exact G3].
      * apply forallb_forall. intros x Hx. rewrite Forall_forall in G3. apply (G3 x Hx).
Qed.

(* ---- the whole file ---- *)
Section R.
Variable tokenize : str -> option (list str).

Lemma read_lines_shape ls : forall inside toks,
  read_lines tokenize inside ls = Some toks ->
  forallb line_ok (split_cr toks []) = true /\ forallb ws_nonempty toks = true.
Proof.
  induction ls as [|l r IH]; intros inside toks H; cbn [read_lines] in H.
  - inversion H. split; reflexivity.
  - destruct (tokenize l) as [tl|] eqn:Et; [|discriminate].
    pose proof (classify_line_shape inside tl) as [Hl Hw].
    pose proof (classify_line_spec inside tl) as [_ Hn].
    destruct (classify_line inside tl) as [objs inside'].
    destruct (read_lines tokenize inside' r) as [rest|] eqn:Er; [|discriminate].
    inversion H; subst; clear H. cbn [fst] in *.
    destruct (IH _ _ Er) as [IH1 IH2].
    split.
    + rewrite split_cr_line by assumption. cbn [rev app forallb]. rewrite Hl, IH1. reflexivity.
    + rewrite forallb_app. cbn [forallb]. rewrite Hw, IH2. reflexivity.
Qed.

(* whatever the reader returns has the reader shape *)
Theorem read_shape ls toks : read tokenize ls = Some toks -> shape toks = true.
Proof.
  unfold read, shape. intros H. destruct (read_lines_shape _ _ _ H) as [A B]. rewrite A, B. reflexivity.
Qed.

(* a model that emitting and reading reproduces has the reader shape: losing the shape is losing C08 *)
Theorem reread_requires_shape m : read tokenize (tl (get_lines m)) = Some m -> shape m = true.
Proof. apply read_shape. Qed.
End R.

(* non-vacuity: a list in reader shape, and the two ways rules lose it *)
Example shape_holds : shape [mk KItem [97%N]; CR; mk KBlank []; CR] = true.
Proof. reflexivity. Qed.
Example shape_lost_empty_line : shape [mk KItem [97%N]; CR; CR] = false.
Proof. reflexivity. Qed.
Example shape_lost_blank_not_alone : shape [mk KWs [32%N]; mk KBlank []; CR] = false.
Proof. reflexivity. Qed.
Example shape_lost_empty_ws : shape [mk KItem [97%N]; mk KWs []; mk KItem [98%N]; CR] = false.
Proof. reflexivity. Qed.

(* ---- what the normaliser after phase 1 (utils.fix_blank_lines) restores of the shape, and what it does not ---- *)
Fixpoint no_cr_cr (l : list tok) : bool :=
  match l with
  | a :: r => match r with b :: _ => negb (is_cr a && is_cr b) | [] => true end && no_cr_cr r
  | [] => true
  end.
Definition hd_not_cr (l : list tok) : Prop := match l with [] => True | h :: _ => is_cr h = false end.

Lemma no_cr_cr_cons a X : no_cr_cr X = true -> (is_cr a = false \/ hd_not_cr X) -> no_cr_cr (a :: X) = true.
Proof.
  intros HX H. cbn [no_cr_cr]. rewrite HX, andb_true_r. destruct X as [|b X']; [reflexivity|].
  destruct H as [H|H]; [rewrite H; reflexivity|]. cbn in H. rewrite H, andb_false_r. reflexivity.
Qed.

Lemma fbl_head_not_cr all prev t r : is_cr t = false -> hd_not_cr (fbl all prev (t :: r)).
Proof.
  intros H. cbn [fbl]. unfold is_cr in H. rewrite H. cbn [andb].
  destruct (okind_is prev KCr && kind_eqb (tk t) KWs && okind_is _ KCr); cbn; [reflexivity|exact H].
Qed.

Theorem fbl_no_cr_cr all l : forall prev, no_cr_cr (fbl all prev l) = true.
Proof.
  induction l as [|t r IH]; intros prev; [reflexivity|].
  cbn [fbl].
  set (next := match r with n :: _ => Some (tk n) | [] => None end).
  destruct (kind_eqb (tk t) KCr && okind_is next KCr) eqn:E1.
  - apply no_cr_cr_cons; [|right; reflexivity].
    apply no_cr_cr_cons; [apply IH|left; reflexivity].
  - destruct (okind_is prev KCr && kind_eqb (tk t) KWs && okind_is next KCr) eqn:E2.
    + apply no_cr_cr_cons; [apply IH|left; reflexivity].
    + apply no_cr_cr_cons; [apply IH|].
      destruct (kind_eqb (tk t) KCr) eqn:Et; [|left; exact Et].
      right. cbn [andb] in E1. destruct r as [|n r']; [exact I|].
      apply fbl_head_not_cr. unfold next, okind_is in E1. exact E1.
Qed.

(* every empty line that is not the first gets its blank_line object *)
Theorem fix_blank_lines_no_empty_inner_line l : no_cr_cr (fix_blank_lines l) = true.
Proof. apply fbl_no_cr_cr. Qed.

(* ---- a blank_line object is alone on its line after the normaliser ---- *)
(* [prev_cr]: the object before the head is a carriage return (or the head is the first object) *)
Fixpoint alone_from (prev_cr : bool) (l : list tok) : bool :=
  match l with
  | [] => true
  | t :: r =>
      (if is_blank t then prev_cr && match r with n :: _ => is_cr n | [] => true end else true)
      && alone_from (is_cr t) r
  end.

Lemma cr_not_blank t : is_cr t = true -> kind_eqb (tk t) KBlank = false.
Proof. unfold is_cr. destruct (tk t); cbn; congruence. Qed.

Lemma drop_stale_head_cr p n r : is_cr n = true -> drop_stale p (n :: r) = n :: drop_stale true r.
Proof. intros H. cbn [drop_stale]. rewrite (cr_not_blank _ H). cbn [andb]. now rewrite H. Qed.

Lemma drop_stale_alone l : forall p q, (p = true -> q = true) -> alone_from q (drop_stale p l) = true.
Proof.
  induction l as [|t r IH]; intros p q Hpq; [reflexivity|].
  cbn [drop_stale].
  set (next_cr := match r with n :: _ => is_cr n | [] => true end).
  destruct (kind_eqb (tk t) KBlank) eqn:Eb; cbn [andb].
  - assert (Ht : is_cr t = false) by (unfold is_cr; destruct (tk t); cbn in *; congruence).
    rewrite Ht. destruct (p && next_cr) eqn:Epn; cbn [negb].
    + apply andb_prop in Epn. destruct Epn as [Ep En]. subst p.
      cbn [alone_from]. unfold is_blank at 1. rewrite Eb, Ht, (Hpq eq_refl). cbn [andb].
      destruct r as [|n r'].
      * reflexivity.
      * unfold next_cr in En. rewrite (drop_stale_head_cr _ _ _ En), En. cbn [andb].
        rewrite <- (drop_stale_head_cr false _ _ En). apply IH. discriminate.
    + apply IH. discriminate.
  - cbn [alone_from]. unfold is_blank at 1. rewrite Eb. cbn [andb]. apply IH. auto.
Qed.

(* the second pass keeps them alone and the blank_line objects it creates are alone too.  [q]: the last object
   emitted is a carriage return; it may disagree with the input's previous kind only right after an inserted
   blank_line object, and then the head of the input is a carriage return *)
Lemma fbl_head_cr all prev n r : is_cr n = true -> exists r', fbl all prev (n :: r) = n :: r'.
Proof.
  intros H. cbn [fbl]. unfold is_cr in H. rewrite H.
  destruct (true && okind_is _ KCr); [eexists; reflexivity|].
  assert (W : kind_eqb (tk n) KWs = false) by (destruct (tk n); cbn in *; congruence).
  rewrite W, andb_false_r. cbn [andb]. eexists; reflexivity.
Qed.

Lemma alone_from_head_cr a b n r : is_cr n = true -> alone_from a (n :: r) = alone_from b (n :: r).
Proof.
  intros H. cbn [alone_from]. unfold is_blank. rewrite (cr_not_blank _ H). reflexivity.
Qed.

Lemma fbl_alone all l : forall prev q,
  alone_from q l = true ->
  ((okind_is prev KCr = true -> q = true) \/ match l with n :: _ => is_cr n = true | [] => True end) ->
  alone_from q (fbl all prev l) = true.
Proof.
  induction l as [|t r IH]; intros prev q H D; [reflexivity|].
  cbn [alone_from] in H. apply andb_prop in H. destruct H as [Hb Hr].
  cbn [fbl].
  set (next := match r with n :: _ => Some (tk n) | [] => None end).
  destruct (kind_eqb (tk t) KCr && okind_is next KCr) eqn:E1.
  - apply andb_prop in E1. destruct E1 as [Et En].
    destruct r as [|n r']; [discriminate En|]. unfold next, okind_is in En.
    assert (Hn : is_cr n = true) by exact En.
    destruct (fbl_head_cr all (Some (tk t)) n r' Hn) as [r'' Hx].
    cbn [alone_from]. unfold is_blank at 1. rewrite (cr_not_blank t Et). cbn [andb].
    unfold is_blank at 1. cbn [tk kind_eqb]. unfold is_cr at 1. rewrite Et.
    rewrite Hx at 1. rewrite Hn. cbn [andb].
    unfold is_cr at 1. cbn [tk kind_eqb].
    apply IH; [|right; exact Hn].
    rewrite (alone_from_head_cr false (is_cr t) n r' Hn). exact Hr.
  - destruct (okind_is prev KCr && kind_eqb (tk t) KWs && okind_is next KCr) eqn:E2.
    + apply andb_prop in E2. destruct E2 as [E2 En]. apply andb_prop in E2. destruct E2 as [Ep Ew].
      assert (Ht : is_cr t = false) by (unfold is_cr; destruct (tk t); cbn in *; congruence).
      destruct r as [|n r']; [discriminate En|]. unfold next, okind_is in En.
      assert (Hn : is_cr n = true) by exact En.
      destruct (fbl_head_cr all (Some (tk t)) n r' Hn) as [r'' Hx].
      assert (Hq : q = true).
      { destruct D as [D|D]; [exact (D Ep)|]. congruence. }
      cbn [alone_from]. unfold is_blank at 1. cbn [tk kind_eqb]. rewrite Hq. rewrite Hx at 1. rewrite Hn. cbn [andb].
      unfold is_cr at 1. cbn [tk kind_eqb].
      apply IH; [rewrite <- Ht; exact Hr|]. left. unfold okind_is. fold (is_cr t). rewrite Ht. discriminate.
    + cbn [alone_from]. apply andb_true_intro. split.
      * destruct (is_blank t) eqn:Bt; [|reflexivity].
        apply andb_prop in Hb. destruct Hb as [Hq Hnx]. rewrite Hq. cbn [andb].
        destruct r as [|n r']; [reflexivity|].
        destruct (fbl_head_cr all (Some (tk t)) n r' Hnx) as [r'' Hx]. rewrite Hx. exact Hnx.
      * apply IH; [exact Hr|]. left. unfold okind_is. fold (is_cr t). intros X. exact X.
Qed.

(* every blank_line object that leaves utils.fix_blank_lines is alone on its line: a stale one (left on a line a
   structural rule has filled) is dropped by the first pass, the ones the second pass creates stand between two
   carriage returns *)
Theorem fix_blank_lines_alone l : alone_from true (fix_blank_lines l) = true.
Proof.
  unfold fix_blank_lines. apply fbl_alone; [|left; reflexivity].
  apply drop_stale_alone. reflexivity.
Qed.

(* ... but an empty first line still gets no blank_line object: the normalisers are the identity on the witness and
   it is not in reader shape (known C08 finding blank_line / carriage_return at token 0) *)
Example normaliser_first_line_refuted :
  exists l, fix_trailing_whitespace (fix_blank_lines l) = l /\ shape l = false /\ hd_error l = Some CR.
Proof. exists [CR; mk KItem [97%N]; CR]. repeat split. Qed.
(* the stale blank_line object of the earlier findings is now removed *)
Example stale_blank_removed :
  fix_trailing_whitespace (fix_blank_lines [mk KItem [97%N]; mk KBlank []; CR]) = [mk KItem [97%N]; CR].
Proof. reflexivity. Qed.
