(* The per-record evaluation the extracted trace checker performs: everything it decides is computed here, by
   functions the theorems of SpliceProofs / EquivProofs / LinesProofs speak about; the OCaml driver only parses
   and prints. *)
From Coq Require Import List NArith Bool Arith.
Import ListNotations.
Require Import Tokenizer Splice Equiv RoleTable Lines.

Definition aedit := edit atok.

Record verdict := mkverdict {
  v_wf : bool;           (* edits sorted, disjoint, in range *)
  v_after : list atok;   (* Splice.update applied to the current list *)
  v_c01 : bool; v_c01_strict : bool; v_paren : bool; v_lenpres : bool;
  v_c02 : bool; v_c02_rem : bool;
  v_layout : bool; v_case : bool; v_ident : bool;
  v_changed : list nat;  (* lines whose text differs *)
  v_same_count : bool;
  v_cterm : bool; v_wsadj : bool;
  v_kinds_ok : bool      (* every new token's kind is the RoleTable kind of its role *)
}.

Definition all_edits (l : list atok) (es : list aedit) (ok : list atok -> list atok -> bool) : bool :=
  forallb (fun e => ok (slice l (e_start e) (e_stop e)) (e_new e)) es.

Definition kinds_ok (l : list atok) : bool := forallb (fun t => rkind_eqb (a_kind t) (role_kind (a_role t))) l.

Definition judge (l : list atok) (es : list aedit) : verdict :=
  let after := update l es in
  mkverdict
    (wf_b 0 (length l) es) after
    (all_edits l es (c01_edit_ok always_fold optional)) (all_edits l es (c01_edit_strict always_fold))
    (all_edits l es (fun o n => c01_edit_ok always_fold optional o n || c01_paren_ok always_fold optional o n)) (lenpres_b (length l) es)
    (all_edits l es c02_edit_ok) (all_edits l es (fun o n => c02_edit_ok o n || c02_edit_removes o n))
    (all_edits l es c03_layout_ok) (all_edits l es (c03_case_ok always_fold)) (all_edits l es c03_identity_ok)
    (changed_lines l after) (same_line_count l after)
    (comment_terminated after) (no_adjacent_ws after)
    (forallb (fun e => kinds_ok (e_new e)) es).

(* the two normalisers of rule_list.fix after phase 1, predicted with the Lines.v model *)
Definition to_kind (k : rkind) : kind :=
  match k with RWs => KWs | RCr => KCr | RBlank => KBlank | RComment => KComment | RDText => KDText | RPrep => KPrep | _ => KItem end.
Definition to_tok (t : atok) : tok := mk (to_kind (a_kind t)) (a_val t).
Definition normalise (l : list atok) : list tok :=
  fix_trailing_whitespace (fix_blank_lines (map to_tok l)).
Definition coarse (l : list tok) : list (bool * bool * bool * str) :=
  map (fun t => (kind_eqb (tk t) KWs, kind_eqb (tk t) KCr, kind_eqb (tk t) KBlank, tv t)) l.
