(* The per-record evaluation the extracted trace checker performs: everything it decides is computed here, by
   functions the theorems of SpliceProofs / EquivProofs / LinesProofs speak about; the OCaml driver only parses
   and prints. *)
From Coq Require Import List NArith Bool Arith.
Import ListNotations.
Require Import Tokenizer Splice Equiv RoleTable Lines Shape.

Definition aedit := edit atok.

(* Edit lists as the rules produce them may be unsorted, may repeat an edit, and windows of neighbouring
   violations may share boundary tokens. [norm_edits] sorts by start and trims what two neighbouring edits share;
   it is a heuristic, not trusted: [judge] keeps its result only after checking, by computing both sides, that
   the normalised list rewrites the token list exactly as the original one does. *)
Fixpoint insert_edit (e : aedit) (l : list aedit) : list aedit :=
  match l with
  | [] => [e]
  | x :: r => if Nat.ltb (e_start e) (e_start x) then e :: l else x :: insert_edit e r
  end.
Definition sort_edits (es : list aedit) : list aedit := fold_left (fun acc e => insert_edit e acc) es [].

Definition atok_eqb (a b : atok) : bool := N.eqb (a_id a) (a_id b) && N.eqb (a_role a) (a_role b) && str_eqb (a_val a) (a_val b).
Fixpoint atoks_eqb (a b : list atok) : bool :=
  match a, b with
  | [], [] => true
  | x :: a', y :: b' => atok_eqb x y && atoks_eqb a' b'
  | _, _ => false
  end.

(* prev is the last kept edit; e starts at or after prev's start *)
Definition trim_against (prev e : aedit) : option aedit :=
  let k := e_stop prev - e_start e in          (* tokens of the old list both edits cover *)
  if Nat.eqb k 0 then Some e
  else if Nat.leb (e_stop e) (e_stop prev) then None      (* e lies inside prev: kept only if it says the same (checked by judge) *)
  else if Nat.leb k (length (e_new e)) then Some {| e_start := e_stop prev; e_stop := e_stop e; e_new := skipn k (e_new e) |}
  else Some e.
Fixpoint trim_edits (prev : option aedit) (es : list aedit) : list aedit :=
  match es with
  | [] => []
  | e :: r =>
      match prev with
      | None => e :: trim_edits (Some e) r
      | Some p => match trim_against p e with
                  | Some e' => e' :: trim_edits (Some e') r
                  | None => trim_edits prev r
                  end
      end
  end.
Definition norm_edits (es : list aedit) : list aedit := trim_edits None (sort_edits es).

Definition to_kind (k : rkind) : kind :=
  match k with RWs => KWs | RCr => KCr | RBlank => KBlank | RComment => KComment | RDText => KDText | RPrep => KPrep | _ => KItem end.
Definition to_tok (t : atok) : tok := mk (to_kind (a_kind t)) (a_val t).

(* reader shape (Shape.v) of the abstracted list, and freedom from glued code tokens *)
Definition shape_ok (l : list atok) : bool := shape (map to_tok l).
Fixpoint glue_free_from (prev : option str) (l : list atok) : bool :=
  match l with
  | [] => true
  | t :: r =>
      match a_val t with
      | [] => glue_free_from prev r
      | _ => if is_code t
             then (match prev with Some p => negb (junction_bad p (a_val t)) | None => true end) && glue_free_from (Some (a_val t)) r
             else glue_free_from None r
      end
  end.
Definition glue_free (l : list atok) : bool := glue_free_from None l.

(* C02, removers of trailing comments (remove_comments_from_end_of_lines_bounded_by_tokens): a comment such an edit
   drops must be a trailing one, i.e. something other than whitespace stands before it on its line.  [rp] is the
   list before the position, nearest object first. *)
Fixpoint content_before (rp : list atok) : bool :=
  match rp with
  | [] => false
  | t :: r => match a_kind t with RWs => content_before r | RCr | RBlank => false | _ => true end
  end.
Fixpoint all_trailing (rp : list atok) (l : list atok) : bool :=
  match l with
  | [] => true
  | t :: r => (if is_verbatim t then content_before rp else true) && all_trailing (t :: rp) r
  end.
Definition edit_trailing (l : list atok) (e : edit atok) : bool :=
  let old := slice l (e_start e) (e_stop e) in
  c02_edit_ok old (e_new e) || (c02_edit_removes old (e_new e) && all_trailing (rev (firstn (e_start e) l)) old).

Record verdict := mkverdict {
  v_wf : bool;           (* the (normalised) edits are sorted, disjoint, in range *)
  v_after : list atok;   (* Splice.update applied to the current list *)
  v_c01 : bool; v_c01_strict : bool; v_paren : bool; v_lenpres : bool;
  v_c02 : bool; v_c02_rem : bool;
  v_layout : bool; v_case : bool; v_ident : bool;
  v_changed : list nat;  (* lines whose text differs *)
  v_same_count : bool;
  v_cterm : bool; v_wsadj : bool;
  v_kinds_ok : bool;     (* every new token's kind is the RoleTable kind of its role *)
  v_shape : bool; v_glue : bool;  (* the list after the step has the reader shape / no glued code tokens *)
  v_c02_trail : bool              (* comments an edit drops are trailing comments *)
}.

Definition all_edits (l : list atok) (es : list aedit) (ok : list atok -> list atok -> bool) : bool :=
  forallb (fun e => ok (slice l (e_start e) (e_stop e)) (e_new e)) es.

Definition kinds_ok (l : list atok) : bool := forallb (fun t => rkind_eqb (a_kind t) (role_kind (a_role t))) l.

Definition judge (l : list atok) (es0 : list aedit) : verdict :=
  let after := update l es0 in
  let es1 := norm_edits es0 in
  let same := atoks_eqb (update l es1) after in
  let es := if same then es1 else es0 in
  mkverdict
    (wf_b 0 (length l) es) after
    (all_edits l es (c01_edit_ok always_fold optional)) (all_edits l es (c01_edit_strict always_fold))
    (all_edits l es (fun o n => c01_edit_ok always_fold optional o n || c01_paren_ok always_fold optional o n)) (lenpres_b (length l) es)
    (all_edits l es c02_edit_ok) (all_edits l es (fun o n => c02_edit_ok o n || c02_edit_removes o n))
    (all_edits l es c03_layout_ok) (all_edits l es (c03_case_ok always_fold)) (all_edits l es c03_identity_ok)
    (changed_lines l after) (same_line_count l after)
    (comment_terminated after) (no_adjacent_ws after)
    (forallb (fun e => kinds_ok (e_new e)) es)
    (shape_ok after) (glue_free after)
    (forallb (edit_trailing l) es).

(* the two normalisers of rule_list.fix after phase 1, predicted with the Lines.v model *)
Definition normalise (l : list atok) : list tok :=
  fix_trailing_whitespace (fix_blank_lines (map to_tok l)).
Definition coarse (l : list tok) : list (bool * bool * bool * str) :=
  map (fun t => (kind_eqb (tk t) KWs, kind_eqb (tk t) KCr, kind_eqb (tk t) KBlank, tv t)) l.

(* whole-run facts evaluated once per file on the initial and the final list *)
Definition run_c01 (init final : list atok) : bool :=
  strs_eqb (essential_np always_fold optional init) (essential_np always_fold optional final).
Definition run_c02_eq (init final : list atok) : bool := strs_eqb (comments init) (comments final).
Definition run_c02_sub (init final : list atok) : bool := subseq (comments final) (comments init).
Definition n_lines (l : list atok) : nat := length (lines_of l []).
