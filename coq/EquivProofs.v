From Coq Require Import List NArith Bool Arith Lia.
Import ListNotations.
Require Import Tokenizer Splice SpliceProofs Equiv.

Lemma wf_b_sound {A} (es : list (edit A)) : forall pos len, wf_b pos len es = true -> wf pos len es.
Proof.
  induction es as [|e r IH]; intros pos len H; cbn in *.
  - now apply Nat.leb_le.
  - apply andb_prop in H. destruct H as [H H3]. apply andb_prop in H. destruct H as [H1 H2].
    apply Nat.leb_le in H1, H2. auto.
Qed.

Lemma strs_eqb_eq a b : strs_eqb a b = true -> a = b.
Proof. unfold strs_eqb. destruct (list_eq_dec (list_eq_dec N.eq_dec) a b); [auto|discriminate]. Qed.
Lemma str_eqb_eq a b : str_eqb a b = true -> a = b.
Proof. unfold str_eqb. destruct (list_eq_dec N.eq_dec a b); [auto|discriminate]. Qed.
Lemma str_eqb_refl a : str_eqb a a = true.
Proof. unfold str_eqb. destruct (list_eq_dec N.eq_dec a a); congruence. Qed.

(* one rule application = one call of vhdlFile.update *)
Definition step := list (edit atok).
Definition run (l : list atok) (steps : list step) : list atok := fold_left (fun l es => update l es) steps l.

(* every edit of every step is well formed and satisfies [ok old new] on the slice it replaces *)
Fixpoint run_ok (ok : list atok -> list atok -> bool) (l : list atok) (steps : list step) : bool :=
  match steps with
  | [] => true
  | es :: r =>
      wf_b 0 (length l) es && forallb (fun e => ok (slice l (e_start e) (e_stop e)) (e_new e)) es &&
      run_ok ok (update l es) r
  end.

Section Morphism.
(* any projection of token lists that distributes over ++ is preserved by a run whose edits preserve it *)
Variable B : Type.
Variable proj : list atok -> list B.
Hypothesis proj_app : forall a b, proj (a ++ b) = proj a ++ proj b.
Variable ok : list atok -> list atok -> bool.
Hypothesis ok_sound : forall a b, ok a b = true -> proj a = proj b.

Lemma step_preserves l es : wf_b 0 (length l) es = true ->
  forallb (fun e => ok (slice l (e_start e) (e_stop e)) (e_new e)) es = true ->
  proj (update l es) = proj l.
Proof.
  intros Hw Hf. symmetry.
  apply (update_congruence (fun a b => proj a = proj b)).
  - reflexivity.
  - intros a a' b b' H1 H2. now rewrite !proj_app, H1, H2.
  - now apply wf_b_sound.
  - rewrite forallb_forall in Hf. apply Forall_forall. intros e He. apply ok_sound. now apply Hf.
Qed.

Theorem run_preserves steps : forall l, run_ok ok l steps = true -> proj (run l steps) = proj l.
Proof.
  induction steps as [|es r IH]; intros l H; [reflexivity|].
  cbn [run_ok] in H. apply andb_prop in H. destruct H as [H H3]. apply andb_prop in H. destruct H as [H1 H2].
  cbn [run fold_left]. fold (run (update l es) r). rewrite (IH _ H3). now apply step_preserves.
Qed.
End Morphism.

Lemma map_filter_app {A B} (f : A -> B) (p : A -> bool) a b :
  map f (filter p (a ++ b)) = map f (filter p a) ++ map f (filter p b).
Proof. now rewrite filter_app, map_app. Qed.

(* ---------------- C01 ---------------- *)
Section C01.
Variable always_fold optional : N -> bool.

(* a fix run all of whose edits are well formed and keep the essential code tokens of the slice they replace
   ends with exactly the essential code tokens it started with: none lost, duplicated, reordered or invented *)
Theorem C01_run steps l :
  run_ok (c01_edit_ok always_fold optional) l steps = true ->
  essential always_fold optional (run l steps) = essential always_fold optional l.
Proof.
  apply (run_preserves _ (essential always_fold optional)).
  - intros a b. apply map_filter_app.
  - intros a b. apply strs_eqb_eq.
Qed.

(* the strict form (no optional element at all) *)
Theorem C01_run_strict steps l :
  run_ok (c01_edit_strict always_fold) l steps = true -> code_seq always_fold (run l steps) = code_seq always_fold l.
Proof.
  apply (run_preserves _ (code_seq always_fold)).
  - intros a b. apply map_filter_app.
  - intros a b. apply strs_eqb_eq.
Qed.
End C01.

(* ---------------- C02 ---------------- *)
Theorem C02_run steps l : run_ok c02_edit_ok l steps = true -> comments (run l steps) = comments l.
Proof.
  apply (run_preserves _ comments).
  - intros a b. apply map_filter_app.
  - intros a b. apply strs_eqb_eq.
Qed.

(* with comment removers: the final comments are a subsequence of the initial ones *)
Inductive Sub {A} : list A -> list A -> Prop :=
| sub_nil l : Sub [] l
| sub_skip a y b : Sub a b -> Sub a (y :: b)
| sub_take x a b : Sub a b -> Sub (x :: a) (x :: b).

Lemma Sub_refl {A} (l : list A) : Sub l l.
Proof. induction l; [apply sub_nil|apply sub_take; assumption]. Qed.
Lemma Sub_app {A} (a b a' b' : list A) : Sub a b -> Sub a' b' -> Sub (a ++ a') (b ++ b').
Proof.
  intros H H'. induction H as [l|a y b _ IH|x a b _ IH]; cbn.
  - induction l; cbn; [exact H'|now apply sub_skip].
  - now apply sub_skip.
  - now apply sub_take.
Qed.
Lemma Sub_trans {A} (a b c : list A) : Sub a b -> Sub b c -> Sub a c.
Proof.
  intros H1 H2. revert a H1. induction H2 as [l|b y c _ IH|x b c _ IH]; intros a H1.
  - inversion H1. apply sub_nil.
  - apply sub_skip. now apply IH.
  - inversion H1; subst; [apply sub_nil|apply sub_skip; now apply IH|apply sub_take; now apply IH].
Qed.
Lemma subseq_sound a b : subseq a b = true -> Sub a b.
Proof.
  revert a. induction b as [|y b IH]; intros a H.
  - destruct a; [apply sub_nil|discriminate].
  - destruct a as [|x a]; [apply sub_nil|]. cbn in H. destruct (str_eqb x y) eqn:E.
    + apply str_eqb_eq in E. subst. apply sub_take. now apply IH.
    + apply sub_skip. now apply IH.
Qed.

Theorem C02_run_with_removers steps : forall l,
  run_ok (fun old new => c02_edit_ok old new || c02_edit_removes old new) l steps = true ->
  Sub (comments (run l steps)) (comments l).
Proof.
  assert (capp : forall a b, comments (a ++ b) = comments a ++ comments b) by (intros; apply map_filter_app).
  induction steps as [|es r IH]; intros l H; [apply Sub_refl|].
  cbn [run_ok] in H. apply andb_prop in H. destruct H as [H H3]. apply andb_prop in H. destruct H as [H1 H2].
  cbn [run fold_left]. fold (run (update l es) r).
  apply (Sub_trans _ (comments (update l es))); [now apply IH|].
  apply (update_congruence (fun a b => Sub (comments b) (comments a))).
  - intros x. apply Sub_refl.
  - intros a a' b b' Ha Hb. rewrite !capp. now apply Sub_app.
  - now apply wf_b_sound.
  - rewrite forallb_forall in H2. apply Forall_forall. intros e He. specialize (H2 e He).
    apply orb_true_iff in H2. destruct H2 as [H2|H2].
    + unfold c02_edit_ok in H2. apply strs_eqb_eq in H2. rewrite H2. apply Sub_refl.
    + now apply subseq_sound.
Qed.

(* ---------------- C03 ---------------- *)
(* layout rules: every token that is not whitespace / line break / blank line keeps identity, role and text *)
Lemma trip_eqb_eq x y : trip_eqb x y = true -> x = y.
Proof.
  destruct x as [[a1 b1] c1], y as [[a2 b2] c2]. cbn. intros H.
  apply andb_prop in H. destruct H as [H H3]. apply andb_prop in H. destruct H as [H1 H2].
  apply N.eqb_eq in H1, H2. apply str_eqb_eq in H3. now subst.
Qed.
Lemma sig_eqb_eq a : forall b, sig_eqb a b = true -> a = b.
Proof.
  induction a as [|x a IH]; intros [|y b] H; cbn in H; try discriminate; [reflexivity|].
  apply andb_prop in H. destruct H as [H1 H2]. apply trip_eqb_eq in H1. subst. f_equal. now apply IH.
Qed.

Theorem C03_layout_run steps l :
  run_ok c03_layout_ok l steps = true -> nonlayout_sig (run l steps) = nonlayout_sig l.
Proof.
  apply (run_preserves _ nonlayout_sig).
  - intros a b. apply map_filter_app.
  - intros a b. apply sig_eqb_eq.
Qed.

(* case rules: token for token, same identity / role / kind, text of equal length *)
Definition shape (l : list atok) : list (rkind * nat) := map (fun t => (a_kind t, length (a_val t))) l.

Lemma c03_case_shape af old : forall new, c03_case_ok af old new = true -> shape old = shape new.
Proof.
  induction old as [|a r IH]; intros [|b r'] H; cbn in H; try discriminate; [reflexivity|].
  apply andb_prop in H. destruct H as [H1 H2]. cbn. f_equal; [|now apply IH].
  unfold case_tok_ok in H1. repeat (apply andb_prop in H1; destruct H1 as [H1 ?]).
  match goal with h : Nat.eqb (length _) (length _) = true |- _ => apply Nat.eqb_eq in h; rewrite h end.
  match goal with h : rkind_eqb _ _ = true |- _ => destruct (a_kind a), (a_kind b); try discriminate; reflexivity end.
Qed.

(* the line structure and every line's length depend on the shape only *)
Lemma lines_shape l : forall l' cur cur', shape l = shape l' -> length cur = length cur' ->
  map (@length _) (lines_of l cur) = map (@length _) (lines_of l' cur').
Proof.
  induction l as [|t r IH]; intros [|t' r'] cur cur' Hs Hc; cbn in Hs; try discriminate.
  - cbn. destruct cur, cur'; cbn in *; try discriminate; [reflexivity|now rewrite Hc].
  - inversion Hs as [[Hk Hl Hr]]. cbn [lines_of]. unfold is_cr. rewrite Hk.
    destruct (rkind_eqb (a_kind t') RCr).
    + cbn [map]. f_equal; [exact Hc|]. now apply IH.
    + apply IH; [exact Hr|]. rewrite !app_length. lia.
Qed.

Theorem C03_case_run af steps l :
  run_ok (c03_case_ok af) l steps = true ->
  shape (run l steps) = shape l /\
  map (@length _) (lines_of (run l steps) []) = map (@length _) (lines_of l []).
Proof.
  intros H. assert (S : shape (run l steps) = shape l).
  { revert H. apply (run_preserves _ shape).
    - intros a b. unfold shape. apply map_app.
    - intros a b Hab. now apply (c03_case_shape af). }
  split; [exact S|]. now apply lines_shape.
Qed.

(* ... and a case edit leaves literals and extended identifiers exactly as they were *)
Lemma c_lower_quote c : (c_lower c =? 39)%N || (c_lower c =? 34)%N || (c_lower c =? 92)%N = true ->
  c_lower c = c.
Proof.
  unfold c_lower.
  destruct (((65 <=? c) && (c <=? 90) || ((192 <=? c) && (c <=? 222)) && negb (c =? 215))%N) eqn:E; [|reflexivity].
  intros H. exfalso.
  assert (R : (65 <= c <= 90 \/ 192 <= c <= 222)%N).
  { apply orb_true_iff in E. destruct E as [E|E].
    - apply andb_prop in E. destruct E as [E1 E2]. apply N.leb_le in E1, E2. left. lia.
    - apply andb_prop in E. destruct E as [E _]. apply andb_prop in E. destruct E as [E1 E2]. apply N.leb_le in E1, E2. right. lia. }
  apply orb_true_iff in H. destruct H as [H|H]; [apply orb_true_iff in H; destruct H as [H|H]|]; apply N.eqb_eq in H; lia.
Qed.

Theorem case_keeps_exact af a b : case_tok_ok af a b = true -> is_code a = true ->
  exact_value (a_val a) = true -> af (a_role a) = false -> a_val b = a_val a.
Proof.
  unfold case_tok_ok. intros H Hc He Ha.
  repeat (apply andb_prop in H; destruct H as [H ?]).
  rewrite Hc in *. match goal with h : str_eqb _ _ = true |- _ => apply str_eqb_eq in h; rename h into Hf end.
  match goal with h : N.eqb (a_role a) (a_role b) = true |- _ => apply N.eqb_eq in h; rename h into Hr end.
  unfold fold in Hf. rewrite He, Ha in Hf. cbn [negb andb] in Hf. rewrite <- Hr, Ha in Hf. cbn [negb] in Hf.
  rewrite andb_true_r in Hf. destruct (exact_value (a_val b)) eqn:Eb; [now symmetry|].
  (* b folded gives a's text, which starts with a quote: then b starts with the same quote *)
  exfalso. destruct (a_val a) as [|c r] eqn:Ea; [discriminate|]. destruct (a_val b) as [|c' r']; [discriminate|].
  cbn in Hf. inversion Hf as [[Hc1 Hr1]]. cbn in He, Eb.
  assert (Q : c_lower c' = c') by (apply c_lower_quote; now rewrite <- Hc1).
  rewrite Q in Hc1. subst c'. rewrite He in Eb. discriminate.
Qed.

(* rules that must not change anything *)
Lemma same_tok_eq a b : same_tok a b = true -> a_id a = a_id b /\ a_role a = a_role b /\ a_val a = a_val b.
Proof.
  unfold same_tok. intros H. apply andb_prop in H. destruct H as [H H3]. apply andb_prop in H. destruct H as [H1 H2].
  apply N.eqb_eq in H1, H2. apply str_eqb_eq in H3. auto.
Qed.
Definition ident_sig (l : list atok) : list (N * N * str) := map (fun t => (a_id t, a_role t, a_val t)) l.
Lemma c03_identity_sig old : forall new, c03_identity_ok old new = true -> ident_sig old = ident_sig new.
Proof.
  induction old as [|a r IH]; intros [|b r'] H; cbn in H; try discriminate; [reflexivity|].
  apply andb_prop in H. destruct H as [H1 H2]. apply same_tok_eq in H1. destruct H1 as (E1 & E2 & E3).
  cbn. rewrite E1, E2, E3. f_equal. now apply IH.
Qed.
Theorem C03_identity_run steps l : run_ok c03_identity_ok l steps = true -> ident_sig (run l steps) = ident_sig l.
Proof.
  apply (run_preserves _ ident_sig).
  - intros a b. unfold ident_sig. apply map_app.
  - intros a b. apply c03_identity_sig.
Qed.

(* ---------------- C01, parentheses around a condition ---------------- *)
Lemma ins_seq_filter (drop : str -> bool) b : forall ins a,
  ins_seq ins a b = true -> forallb drop ins = true ->
  filter (fun s => negb (drop s)) a = filter (fun s => negb (drop s)) b.
Proof.
  induction b as [|y b IH]; intros ins a H Hd; cbn [ins_seq] in H.
  - destruct a; [reflexivity|discriminate].
  - apply orb_true_iff in H. destruct H as [H|H].
    + destruct a as [|x a]; [discriminate|]. apply andb_prop in H. destruct H as [E H].
      apply str_eqb_eq in E. subst. cbn [filter]. rewrite (IH _ _ H Hd). reflexivity.
    + destruct ins as [|i ins]; [discriminate|]. apply andb_prop in H. destruct H as [E H].
      apply str_eqb_eq in E. subst. cbn [forallb] in Hd. apply andb_prop in Hd. destruct Hd as [Hi Hd].
      cbn [filter]. rewrite Hi. cbn [negb]. now apply (IH ins).
Qed.

Section C01paren.
Variable always_fold optional : N -> bool.
Lemma paren_sound old new :
  c01_edit_ok always_fold optional old new || c01_paren_ok always_fold optional old new = true ->
  essential_np always_fold optional old = essential_np always_fold optional new.
Proof.
  intros H. unfold essential_np. apply orb_true_iff in H. destruct H as [H|H].
  - apply strs_eqb_eq in H. now rewrite H.
  - unfold c01_paren_ok in H. apply orb_true_iff in H. destruct H as [H|H].
    + apply (ins_seq_filter is_paren _ _ _ H). reflexivity.
    + symmetry. apply (ins_seq_filter is_paren _ _ _ H). reflexivity.
Qed.

(* a run whose edits keep the essential tokens or add / remove one pair of parentheses keeps the essential
   tokens other than parentheses *)
Theorem C01_run_paren steps l :
  run_ok (fun o n => c01_edit_ok always_fold optional o n || c01_paren_ok always_fold optional o n) l steps = true ->
  essential_np always_fold optional (run l steps) = essential_np always_fold optional l.
Proof.
  apply (run_preserves _ (essential_np always_fold optional)).
  - intros a b. unfold essential_np, essential. now rewrite filter_app, map_app, filter_app.
  - intros a b. apply paren_sound.
Qed.
End C01paren.

(* ---------------- length-preserving pointwise steps (case rules with unsorted / overlapping edits) ---------------- *)
Lemma lenpres_b_sound (es : list (edit atok)) len : lenpres_b len es = true -> Forall (inrange_lenpres len) es.
Proof.
  unfold lenpres_b. rewrite forallb_forall. intros H. apply Forall_forall. intros e He. specialize (H e He).
  apply andb_prop in H. destruct H as [H H3]. apply andb_prop in H. destruct H as [H1 H2].
  apply Nat.leb_le in H1, H2. apply Nat.eqb_eq in H3. repeat split; assumption.
Qed.

Lemma c03_case_Forall2 af old : forall new, c03_case_ok af old new = true ->
  Forall2 (fun a b => case_tok_ok af a b = true) old new.
Proof.
  induction old as [|a r IH]; intros [|b r'] H; cbn in H; try discriminate; [constructor|].
  apply andb_prop in H. destruct H as [H1 H2]. constructor; auto.
Qed.

Lemma case_tok_refl af a : case_tok_ok af a a = true.
Proof.
  unfold case_tok_ok. rewrite !N.eqb_refl, Nat.eqb_refl. destruct (a_kind a); cbn; destruct (is_code a); apply str_eqb_refl.
Qed.

Theorem C03_case_step_pointwise af l es :
  lenpres_b (length l) es = true ->
  forallb (fun e => c03_case_ok af (slice l (e_start e) (e_stop e)) (e_new e)) es = true ->
  Forall2 (fun a b => case_tok_ok af a b = true) l (update l es).
Proof.
  intros Hl Hf. apply update_pointwise; [apply case_tok_refl|].
  apply lenpres_b_sound in Hl. rewrite Forall_forall in *. rewrite forallb_forall in Hf.
  intros e He. split; [now apply Hl|]. apply c03_case_Forall2. now apply Hf.
Qed.

(* ---------------- C07: the changed-lines computation ---------------- *)
Lemma diff_lines_nil a : forall b n, diff_lines a b n = [] -> a = b.
Proof.
  induction a as [|x a IH]; intros [|y b] n H; cbn in H; try discriminate; [reflexivity|].
  destruct (str_eqb x y) eqn:E; [|discriminate]. apply str_eqb_eq in E. subst. f_equal. now apply (IH b (S n)).
Qed.
Lemma diff_lines_sound a : forall b n k, length a = length b -> In k (diff_lines a b n) ->
  n <= k < n + length a /\ nth (k - n) a [] <> nth (k - n) b [].
Proof.
  induction a as [|x a IH]; intros [|y b] n k Hl H; cbn in *; try discriminate; [destruct H|].
  destruct (str_eqb x y) eqn:E.
  - destruct (IH b (S n) k ltac:(lia) H) as [H1 H2]. split; [lia|].
    replace (k - n) with (S (k - S n)) by lia. exact H2.
  - destruct H as [<-|H].
    + split; [lia|]. rewrite Nat.sub_diag. cbn. intros ->. unfold str_eqb in E. destruct (list_eq_dec N.eq_dec y y); congruence.
    + destruct (IH b (S n) k ltac:(lia) H) as [H1 H2]. split; [lia|].
      replace (k - n) with (S (k - S n)) by lia. exact H2.
Qed.
(* a rule application whose changed-lines list is empty and that keeps the line count left every line as it was *)
Theorem unchanged_lines_equal before after :
  changed_lines before after = [] -> lines_of before [] = lines_of after [].
Proof. apply diff_lines_nil. Qed.

(* ---------------- C09 / C10: no violation, no change; identity edits, no change ---------------- *)
Theorem run_no_violations {A} (l : list A) n : fold_left (fun l es => update l es) (repeat (@nil (edit A)) n) l = l.
Proof. induction n; cbn; auto. Qed.

Theorem identity_edits_no_change {A} (es : list (edit A)) l : wf 0 (length l) es ->
  Forall (fun e => e_new e = slice l (e_start e) (e_stop e)) es -> update l es = l.
Proof.
  intros Hw Hf. symmetry. apply (update_congruence (@eq (list A))); auto.
  - intros a a' b b' -> ->. reflexivity.
  - apply Forall_forall. rewrite Forall_forall in Hf. intros e He. symmetry. now apply Hf.
Qed.
