From Coq Require Import List Bool Arith Lia Permutation Sorted.
Import ListNotations.
Require Import Report.

Definition le_line (a b : row) : Prop := r_line a <= r_line b.

Lemma insert_perm x l : Permutation (insert x l) (x :: l).
Proof.
  induction l as [|y r IH]; cbn [insert]; [reflexivity|].
  destruct (Nat.ltb (r_line x) (r_line y)); [reflexivity|].
  rewrite IH. apply perm_swap.
Qed.

Lemma fold_insert_perm l : forall acc, Permutation (fold_left (fun a x => insert x a) l acc) (acc ++ l).
Proof.
  induction l as [|x r IH]; intros acc; cbn; [now rewrite app_nil_r|].
  rewrite IH, insert_perm. apply Permutation_sym. rewrite Permutation_app_comm. cbn.
  constructor. apply Permutation_app_comm.
Qed.

Theorem sort_perm l : Permutation (sort_rows l) l.
Proof. unfold sort_rows. apply (fold_insert_perm l []). Qed.

Lemma insert_sorted x l : StronglySorted le_line l -> StronglySorted le_line (insert x l).
Proof.
  induction 1 as [|y r Hs IH Hf]; cbn [insert]; [repeat constructor|].
  destruct (Nat.ltb (r_line x) (r_line y)) eqn:E.
  - apply Nat.ltb_lt in E. constructor; [constructor; assumption|].
    constructor; [unfold le_line; lia|]. rewrite Forall_forall in *. intros z Hz. specialize (Hf z Hz). unfold le_line in *. lia.
  - apply Nat.ltb_ge in E. constructor; [exact IH|].
    rewrite Forall_forall in *. intros z Hz.
    apply (Permutation_in _ (insert_perm x r)) in Hz. destruct Hz as [<-|Hz]; [exact E|auto].
Qed.

Lemma fold_insert_sorted l : forall acc, StronglySorted le_line acc ->
  StronglySorted le_line (fold_left (fun a x => insert x a) l acc).
Proof. induction l as [|x r IH]; intros acc H; cbn; [exact H|]. apply IH. now apply insert_sorted. Qed.

Theorem sort_sorted l : StronglySorted le_line (sort_rows l).
Proof. apply fold_insert_sorted. constructor. Qed.

(* stability: rows of one line keep their relative (rule) order *)
Definition on_line (k : nat) (x : row) : bool := Nat.eqb (r_line x) k.

Lemma filter_later k l : Forall (fun z => k < r_line z) l -> filter (on_line k) l = [].
Proof.
  induction 1 as [|z r Hz _ IH]; [reflexivity|]. cbn [filter].
  assert (on_line k z = false) as -> by (apply Nat.eqb_neq; lia). exact IH.
Qed.

Lemma insert_stable k x l : StronglySorted le_line l ->
  filter (on_line k) (insert x l) = filter (on_line k) l ++ (if on_line k x then [x] else []).
Proof.
  induction 1 as [|y r Hs IH Hf]; cbn [insert filter app]; [destruct (on_line k x); reflexivity|].
  destruct (Nat.ltb (r_line x) (r_line y)) eqn:E.
  - apply Nat.ltb_lt in E. cbn [filter].
    destruct (on_line k x) eqn:Ex.
    + (* everything from y on is on a later line than k *)
      assert (Hn : filter (on_line k) (y :: r) = []).
      { apply Nat.eqb_eq in Ex. apply filter_later. constructor; [lia|].
        rewrite Forall_forall in *. intros z Hz. specialize (Hf z Hz). unfold le_line in Hf. lia. }
      cbn [filter] in Hn. rewrite Hn. reflexivity.
    + now rewrite app_nil_r.
  - cbn [filter]. rewrite IH. destruct (on_line k y); reflexivity.
Qed.

Lemma fold_insert_stable k l : forall acc, StronglySorted le_line acc ->
  filter (on_line k) (fold_left (fun a x => insert x a) l acc) = filter (on_line k) acc ++ filter (on_line k) l.
Proof.
  induction l as [|x r IH]; intros acc H; cbn [fold_left filter]; [now rewrite app_nil_r|].
  rewrite IH by now apply insert_sorted. rewrite insert_stable by exact H.
  rewrite <- app_assoc. destruct (on_line k x); reflexivity.
Qed.

Theorem sort_stable k l : filter (on_line k) (sort_rows l) = filter (on_line k) l.
Proof. unfold sort_rows. rewrite fold_insert_stable by constructor. reflexivity. Qed.

(* ---- every format projects the one list all_rows ---- *)
Section One.
Variable per_rule : list (list row).

Theorem table_is_permutation : Permutation (table_rows per_rule) (all_rows per_rule).
Proof. apply sort_perm. Qed.

Theorem table_sorted_stable :
  StronglySorted le_line (table_rows per_rule) /\
  forall k, filter (on_line k) (table_rows per_rule) = filter (on_line k) (json_rows per_rule).
Proof. split; [apply sort_sorted|intros k; apply sort_stable]. Qed.

Theorem total_is_number_of_rows : total per_rule = length (json_rows per_rule).
Proof. unfold total. apply Permutation_length, table_is_permutation. Qed.

Lemma count_sev_perm k a b : Permutation a b -> count_sev k a = count_sev k b.
Proof.
  unfold count_sev. induction 1 as [|x l l' _ IH|x y l|l l' l'' _ IH1 _ IH2]; cbn; auto.
  - destruct (Nat.eqb (r_sev x) k); cbn; auto.
  - destruct (Nat.eqb (r_sev x) k), (Nat.eqb (r_sev y) k); reflexivity.
  - congruence.
Qed.

(* the per-severity counts printed add up to the total when every rule's severity is in the list *)
Lemma indicator_sum v m : forall s,
  list_sum (map (fun k => if Nat.eqb v k then 1 else 0) (seq s m)) = if Nat.leb s v && Nat.ltb v (s + m) then 1 else 0.
Proof.
  induction m as [|m IH]; intros s; cbn [seq map list_sum fold_right].
  - destruct (Nat.leb_spec s v), (Nat.ltb_spec v (s + 0)); cbn; try reflexivity; lia.
  - rewrite IH. destruct (Nat.eqb_spec v s).
    + subst. destruct (Nat.leb_spec (S s) s); [lia|]. cbn [andb].
      destruct (Nat.leb_spec s s); [|lia]. destruct (Nat.ltb_spec s (s + S m)); [reflexivity|lia].
    + destruct (Nat.leb_spec (S s) v), (Nat.ltb_spec v (S s + m)), (Nat.leb_spec s v), (Nat.ltb_spec v (s + S m)); cbn; try reflexivity; lia.
Qed.

Lemma list_sum_map_add {A} (f g : A -> nat) l :
  list_sum (map (fun k => f k + g k) l) = list_sum (map f l) + list_sum (map g l).
Proof. induction l as [|a l IH]; cbn [map list_sum fold_right]; [reflexivity|]. fold (list_sum (map (fun k => f k + g k) l)) (list_sum (map f l)) (list_sum (map g l)). rewrite IH. lia. Qed.

Lemma counts_sum n : forall rows, Forall (fun x => r_sev x < n) rows ->
  list_sum (map (fun k => count_sev k rows) (seq 0 n)) = length rows.
Proof.
  intros rows. induction rows as [|x r IH]; intros H.
  - clear H. induction (seq 0 n); cbn; auto.
  - inversion H as [|? ? Hx Hr]; subst. specialize (IH Hr). cbn [length]. rewrite <- IH.
    transitivity (list_sum (map (fun k => (if Nat.eqb (r_sev x) k then 1 else 0) + count_sev k r) (seq 0 n))).
    + f_equal. apply map_ext. intros k. unfold count_sev. cbn [filter]. destruct (Nat.eqb (r_sev x) k); reflexivity.
    + rewrite list_sum_map_add, indicator_sum. cbn [Nat.leb andb plus].
      destruct (Nat.ltb_spec (r_sev x) n); [reflexivity|lia].
Qed.

Theorem counts_add_up nsev : Forall (fun x => r_sev x < nsev) (all_rows per_rule) ->
  list_sum (sev_counts nsev per_rule) = total per_rule.
Proof.
  intros H. unfold sev_counts, total. apply counts_sum.
  rewrite Forall_forall in *. intros x Hx. apply H. eapply Permutation_in; [apply table_is_permutation|exact Hx].
Qed.

Theorem junit_is_error_rows : junit_rows per_rule = filter r_error (json_rows per_rule) /\
  Permutation (junit_rows per_rule) (filter r_error (table_rows per_rule)).
Proof.
  split; [reflexivity|]. unfold junit_rows.
  assert (G : forall a b : list row, Permutation a b -> Permutation (filter r_error a) (filter r_error b)).
  { induction 1; cbn; auto.
    - destruct (r_error x); auto.
    - destruct (r_error x), (r_error y); auto. apply perm_swap.
    - etransitivity; eauto. }
  apply G. symmetry. apply table_is_permutation.
Qed.

(* the file's exit contribution, the summary verdict and the presence of an error-type row agree *)
Theorem status_iff_error_row :
  file_status per_rule = true <-> exists x, In x (table_rows per_rule) /\ r_error x = true.
Proof.
  unfold file_status. rewrite existsb_exists. split; intros (x & Hx & E); exists x; split; auto.
  - eapply Permutation_in; [symmetry; apply table_is_permutation|exact Hx].
  - eapply Permutation_in; [apply table_is_permutation|exact Hx].
Qed.

Theorem summary_verdict_is_status : summary_ok_by_type per_rule = negb (file_status per_rule).
Proof.
  unfold summary_ok_by_type. f_equal.
  apply eq_true_iff_eq. rewrite status_iff_error_row, existsb_exists. tauto.
Qed.
End One.

(* warnings alone never make the exit status non-zero; a failed file always does *)
Theorem exit_zero_iff fs :
  exit_status fs = false <->
  forall f, In f fs -> exists p, f = Processed p /\ forall x, In x (json_rows p) -> r_error x = false.
Proof.
  unfold exit_status. split.
  - intros H f Hf. destruct f as [p|].
    + exists p. split; [reflexivity|]. intros x Hx. destruct (r_error x) eqn:E; [|reflexivity].
      assert (X : existsb result_status fs = true).
      { apply existsb_exists. exists (Processed p). split; [exact Hf|]. cbn. unfold file_status. apply existsb_exists. eauto. }
      congruence.
    + assert (X : existsb result_status fs = true) by (apply existsb_exists; exists Failed; auto). congruence.
  - intros H. destruct (existsb result_status fs) eqn:E; [|reflexivity].
    apply existsb_exists in E. destruct E as (f & Hf & E). destruct (H f Hf) as (p & -> & Hp).
    cbn in E. unfold file_status in E. apply existsb_exists in E. destruct E as (x & Hx & Ex). rewrite (Hp x Hx) in Ex. discriminate.
Qed.

(* the summary verdict keyed on the severity *named* Error (the code before the repair) is refuted by a
   user-defined error-type severity *)
Theorem summary_by_name_refuted : exists p, summary_ok p = true /\ file_status p = true.
Proof. exists [[mkrow 0 3 2 true 0]]. vm_compute. split; reflexivity. Qed.

(* with the built-in severities only, both verdicts coincide *)
Theorem summary_by_name_ok_builtin p :
  (forall x, In x (all_rows p) -> r_error x = Nat.eqb (r_sev x) 0) -> summary_ok p = summary_ok_by_type p.
Proof.
  intros H. unfold summary_ok, summary_ok_by_type, count_sev.
  assert (Ht : forall x, In x (table_rows p) -> r_error x = Nat.eqb (r_sev x) 0).
  { intros x Hx. apply H. eapply Permutation_in; [apply table_is_permutation|exact Hx]. }
  induction (table_rows p) as [|x l IH]; [reflexivity|].
  cbn [filter existsb]. rewrite (Ht x (or_introl eq_refl)).
  destruct (Nat.eqb (r_sev x) 0); cbn; [reflexivity|]. apply IH. intros y Hy. apply Ht. now right.
Qed.

Example report_example :
  let p := [[mkrow 0 9 0 true 0; mkrow 0 2 0 true 1]; []; [mkrow 2 2 1 false 2]] in
  map r_sol (table_rows p) = [1; 2; 0] /\ total p = 3 /\ sev_counts 2 p = [2; 1] /\
  map r_sol (junit_rows p) = [0; 1] /\ file_status p = true /\ summary_ok_by_type p = false.
Proof. vm_compute. repeat split. Qed.
