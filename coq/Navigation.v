(* Model of the cursor primitives the role classifier is written against (vhdlFile/utils.py): find_next_token,
   is_next_token / object_value_is, assign_next_token, and of "classifier programs" over them. *)
From Coq Require Import List NArith Bool Arith Lia.
Import ListNotations.
Require Import Tokenizer.

Inductive ntok :=
| NRaw (v : str)               (* type(oToken) == parser.item: not yet classified *)
| NDone (role : nat) (v : str) (* a classified code token *)
| NSkip (v : str).             (* whitespace, carriage return, comment, ... : classified at line level *)

Definition nval (t : ntok) : str := match t with NRaw v | NDone _ v | NSkip v => v end.
Definition is_raw (t : ntok) : bool := match t with NRaw _ => true | _ => false end.

(* find_next_token: first raw item at or after i; i itself when there is none *)
Fixpoint first_raw (l : list ntok) : option nat :=
  match l with [] => None | t :: r => if is_raw t then Some 0 else option_map S (first_raw r) end.
Definition find_next (l : list ntok) (i : nat) : nat :=
  match first_raw (skipn i l) with Some d => i + d | None => i end.

(* object_value_is(lObjects, find_next_token(i), s): lower-cased comparison *)
Definition lower_at (l : list ntok) (j : nat) : option str := option_map (fun t => s_lower (nval t)) (nth_error l j).

(* assign_next_token(role, i): replace the next raw item, return the index after it *)
Fixpoint set_nth (l : list ntok) (j : nat) (t : ntok) : list ntok :=
  match l, j with
  | [], _ => []
  | _ :: r, 0 => t :: r
  | x :: r, S j' => x :: set_nth r j' t
  end.
Definition assign_next (role : nat) (l : list ntok) (i : nat) : list ntok * nat :=
  let j := find_next l i in
  match nth_error l j with
  | Some t => (set_nth l j (NDone role (nval t)), S j)
  | None => (l, S j)
  end.

(* what the primitives can see from cursor i on: the lower-cased values of the raw items still ahead *)
Definition alpha (l : list ntok) (i : nat) : list str := map (fun t => s_lower (nval t)) (filter is_raw (skipn i l)).

(* classifier programs: arbitrary control flow over "look at the next raw item" and "classify the next raw item" *)
Inductive prog :=
| Ret
| Peek (k : str -> prog)            (* is_next_token / is_next_token_one_of / object_value_is at find_next_token *)
| Assign (role : nat) (k : prog)    (* assign_next_token* *)
| Reject.                           (* print_error_message: ClassifyError *)

Inductive outcome := Done (assigned : list (nat * str)) | Rejected (assigned : list (nat * str)) | Stuck.

(* concrete execution on the token list *)
Fixpoint exec (p : prog) (l : list ntok) (i : nat) (acc : list (nat * str)) : outcome :=
  match p with
  | Ret => Done (rev acc)
  | Reject => Rejected (rev acc)
  | Peek k =>
      match first_raw (skipn i l), lower_at l (find_next l i) with
      | Some _, Some v => exec (k v) l i acc
      | _, _ => Stuck          (* no raw item ahead: the real code falls back on whatever sits at i *)
      end
  | Assign role k =>
      match first_raw (skipn i l), lower_at l (find_next l i) with
      | Some _, Some v => let '(l', i') := assign_next role l i in exec k l' i' ((role, v) :: acc)
      | _, _ => Stuck
      end
  end.

(* abstract execution on the stream of folded raw values *)
Fixpoint aexec (p : prog) (s : list str) (acc : list (nat * str)) : outcome :=
  match p with
  | Ret => Done (rev acc)
  | Reject => Rejected (rev acc)
  | Peek k => match s with v :: _ => aexec (k v) s acc | [] => Stuck end
  | Assign role k => match s with v :: r => aexec k r ((role, v) :: acc) | [] => Stuck end
  end.

(* re-layout: insertion / removal / resizing of skippable tokens and case changes *)
Inductive relayout : list ntok -> list ntok -> Prop :=
| rl_nil : relayout [] []
| rl_skip_l v l l' : relayout l l' -> relayout (NSkip v :: l) l'
| rl_skip_r v l l' : relayout l l' -> relayout l (NSkip v :: l')
| rl_raw v v' l l' : s_lower v = s_lower v' -> relayout l l' -> relayout (NRaw v :: l) (NRaw v' :: l')
| rl_done r v v' l l' : relayout l l' -> relayout (NDone r v :: l) (NDone r v' :: l').
