From Coq Require Import List NArith Bool Arith Lia.
Import ListNotations.
Require Import Tokenizer TokenizerProofs Navigation.

Lemma first_raw_spec l : match first_raw l with
  | Some d => exists t, nth_error l d = Some t /\ is_raw t = true /\ filter is_raw (firstn d l) = []
  | None => filter is_raw l = [] end.
Proof.
  induction l as [|t r IH]; cbn; [reflexivity|].
  destruct (is_raw t) eqn:E; [exists t; auto|].
  destruct (first_raw r) as [d|]; cbn.
  - destruct IH as (x & H1 & H2 & H3). exists x. cbn. rewrite E. auto.
  - exact IH.
Qed.

Lemma skipn_nth_error {A} (l : list A) i d : nth_error (skipn i l) d = nth_error l (i + d).
Proof. revert l. induction i as [|i IH]; intros l; cbn; [reflexivity|]. destruct l; [now destruct d|apply IH]. Qed.

Lemma filter_split_at {A} (f : A -> bool) (l : list A) d t : nth_error l d = Some t ->
  filter f l = filter f (firstn d l) ++ (if f t then [t] else []) ++ filter f (skipn (S d) l).
Proof.
  revert l. induction d as [|d IH]; intros [|x l] H; cbn in H; try discriminate.
  - inversion H; subst. cbn. destruct (f t); reflexivity.
  - cbn [firstn skipn filter]. rewrite (IH l H). destruct (f x); reflexivity.
Qed.

(* the next raw item is the head of alpha *)
Lemma alpha_head l i v s : alpha l i = v :: s ->
  exists d t, first_raw (skipn i l) = Some d /\ nth_error l (i + d) = Some t /\ is_raw t = true /\
              s_lower (nval t) = v /\ alpha l (S (i + d)) = s.
Proof.
  unfold alpha. intros H. pose proof (first_raw_spec (skipn i l)) as S.
  destruct (first_raw (skipn i l)) as [d|].
  - destruct S as (t & H1 & H2 & H3). exists d, t. split; [reflexivity|].
    rewrite skipn_nth_error in H1. split; [exact H1|]. split; [exact H2|].
    rewrite (filter_split_at is_raw (skipn i l) d t) in H by (now rewrite skipn_nth_error).
    rewrite H3, H2 in H. cbn [app map] in H.
    assert (E : skipn (S d) (skipn i l) = skipn (S (i + d)) l).
    { rewrite skipn_skipn'. f_equal. lia. }
    rewrite E in H. injection H as Hv Hs. split; [exact Hv|exact Hs].
  - rewrite S in H. discriminate.
Qed.

Lemma set_nth_skipn l : forall j t k, j < k -> skipn k (set_nth l j t) = skipn k l.
Proof.
  induction l as [|x l IH]; intros j t k H; [now rewrite !skipn_nil|].
  destruct k; [lia|]. destruct j; cbn; [reflexivity|]. apply IH. lia.
Qed.

Lemma lower_at_find l i d t : first_raw (skipn i l) = Some d -> nth_error l (i + d) = Some t ->
  lower_at l (find_next l i) = Some (s_lower (nval t)).
Proof. intros H1 H2. unfold find_next, lower_at. rewrite H1, H2. reflexivity. Qed.

(* simulation: the concrete execution from (l, i) does what the abstract execution does on alpha l i *)
Theorem exec_simulates p : forall l i acc, aexec p (alpha l i) acc <> Stuck ->
  exec p l i acc = aexec p (alpha l i) acc.
Proof.
  induction p as [| k IH | role k IH |]; intros l i acc H; cbn in *; try reflexivity.
  - destruct (alpha l i) as [|v s] eqn:E; [congruence|].
    destruct (alpha_head l i v s E) as (d & t & H1 & H2 & H3 & H4 & H5).
    rewrite H1, (lower_at_find l i d t H1 H2), H4. rewrite <- E in H |- *. apply IH. exact H.
  - destruct (alpha l i) as [|v s] eqn:E; [congruence|].
    destruct (alpha_head l i v s E) as (d & t & H1 & H2 & H3 & H4 & H5).
    rewrite H1, (lower_at_find l i d t H1 H2), H4.
    unfold assign_next, find_next. rewrite H1, H2.
    assert (A : alpha (set_nth l (i + d) (NDone role (nval t))) (S (i + d)) = s).
    { unfold alpha. rewrite set_nth_skipn by lia. exact H5. }
    rewrite <- A in H |- *. apply IH. exact H.
Qed.

(* a re-layout leaves alpha unchanged *)
Lemma relayout_alpha l l' : relayout l l' -> alpha l 0 = alpha l' 0.
Proof.
  unfold alpha. cbn [skipn].
  induction 1 as [| v l l' _ IH | v l l' _ IH | v v' l l' Hv _ IH | r v v' l l' _ IH]; cbn [filter is_raw map nval]; auto.
  now rewrite Hv, IH.
Qed.

(* C05: for every classifier program, two re-layouts of the same code get the same roles on the same (folded)
   code tokens, and one is rejected iff the other is *)
Theorem classifier_relayout_invariant p l l' : relayout l l' ->
  aexec p (alpha l 0) [] <> Stuck -> exec p l 0 [] = exec p l' 0 [].
Proof.
  intros R H. rewrite (exec_simulates p l 0 [] H).
  rewrite (relayout_alpha _ _ R) in H |- *. symmetry. now apply exec_simulates.
Qed.

(* whitespace, carriage returns and "--" comments are skippable by construction of the line-level classifiers;
   a token that is compared by value without being a raw item is not covered: the delimited-comment text token *)
Example relayout_example :
  let kw s := NRaw s in
  relayout [kw [105; 115]%N; NSkip [32]%N; kw [97]%N] [NSkip [10]%N; kw [73; 83]%N; kw [97]%N].
Proof. cbn. apply rl_skip_r. apply rl_raw; [reflexivity|]. apply rl_skip_l. apply rl_raw; [reflexivity|]. constructor. Qed.

(* re-layout is symmetric: undoing a re-layout is a re-layout *)
Lemma relayout_sym l l' : relayout l l' -> relayout l' l.
Proof.
  induction 1 as [|v l l' _ IH|v l l' _ IH|v v' l l' E _ IH|r v v' l l' _ IH].
  - constructor.
  - now apply rl_skip_r.
  - now apply rl_skip_l.
  - apply rl_raw; [now symmetry|exact IH].
  - now apply rl_done.
Qed.

(* the invariance read from the re-laid-out file: if the classifier does not run off the end of the variant, the
   original gets the same roles and the same verdict (an accepted file's re-layouts are accepted, and a rejected
   re-layout means the original was rejected) *)
Theorem classifier_relayout_invariant_rev p l l' : relayout l l' ->
  aexec p (alpha l' 0) [] <> Stuck -> exec p l 0 [] = exec p l' 0 [].
Proof.
  intros R H. rewrite <- (relayout_alpha l l' R) in H. now apply classifier_relayout_invariant.
Qed.
