(* Finite theorems over the tables regenerated from /repo on every run (gen/RuleDoc.v): what the documentation
   promises per rule is what the rule object says; every group lives in the phase docs/phases.rst gives it. *)
From Coq Require Import List Arith Bool.
Import ListNotations.
Require Import RuleDoc.

Definition bool_eqb (a b : bool) : bool := if a then b else negb b.
Definition row_agrees (c d : rrow) : bool :=
  if rr_documented d then
    Nat.eqb (rr_phase c) (rr_phase d) && Nat.eqb (rr_group c) (rr_group d) && bool_eqb (rr_fixable c) (rr_fixable d)
    && bool_eqb (rr_disabled c) (rr_disabled d) && bool_eqb (rr_error c) (rr_error d)
  else Nat.eqb (rr_phase c) 0.   (* an undocumented (proposed) rule is never scheduled: phases run 1..7 *)

Fixpoint forallb2 {A} (f : A -> A -> bool) (a b : list A) : bool :=
  match a, b with
  | [], [] => true
  | x :: a', y :: b' => f x y && forallb2 f a' b'
  | _, _ => false
  end.

Theorem docs_agree : forallb2 row_agrees rule_rows doc_rows = true.
Proof. vm_compute. reflexivity. Qed.

(* a rule whose documented group is not "structure" but which runs in phase 1 (and vice versa) exists on the
   pinned tree (12 rows); C03 therefore takes a rule's class from its documented group, not from its phase *)
Lemma forallb2_nth {A} (f : A -> A -> bool) d : forall a b, forallb2 f a b = true ->
  forall i, i < length a -> f (nth i a d) (nth i b d) = true.
Proof.
  induction a as [|x a IH]; intros [|y b] H i Hi; cbn in *; try discriminate; try (exfalso; inversion Hi; fail).
  apply andb_prop in H. destruct H as [H1 H2]. destruct i; [exact H1|]. apply IH; [exact H2|]. apply Nat.succ_lt_mono. exact Hi.
Qed.

(* stated for every row: the bound is the table itself *)
Theorem docs_agree_all : forall i, i < n_rules ->
  row_agrees (nth i rule_rows (mkrrow 0 0 false false false false)) (nth i doc_rows (mkrrow 0 0 false false false false)) = true.
Proof. intros i Hi. apply forallb2_nth; [exact docs_agree|exact Hi]. Qed.
