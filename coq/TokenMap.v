(* Model of token_map.process_tokens (the role -> positions index) with its three aliases, and of the line
   lookup get_line_number_of_index (bisect_left over the carriage-return positions). A token is seen through its
   unique_id pair (base, sub), given as numbers by the harness. *)
From Coq Require Import List Bool Arith Lia.
Import ListNotations.

Definition key := (nat * nat)%type.
Definition key_eqb (a b : key) : bool := Nat.eqb (fst a) (fst b) && Nat.eqb (snd a) (snd b).

Section M.
Variable LOGICAL PARSER COMMA OPENPAREN : nat.   (* ids of the strings the aliases test *)

(* the keys under which position i of a token with unique_id (b, s) is filed *)
Definition keys_of (k : key) : list key :=
  let '(b, s) := k in
  if Nat.eqb b LOGICAL then [(b, s); (b, b)]
  else if Nat.eqb s COMMA then (if key_eqb (b, s) (PARSER, COMMA) then [(b, s)] else [(b, s); (PARSER, COMMA)])
  else if Nat.eqb s OPENPAREN then (if key_eqb (b, s) (PARSER, OPENPAREN) then [(b, s)] else [(b, s); (PARSER, OPENPAREN)])
  else [(b, s)].

(* dMap[base][sub]: positions in increasing order *)
Fixpoint index_from (q : key) (l : list key) (i : nat) : list nat :=
  match l with
  | [] => []
  | k :: r => if existsb (key_eqb q) (keys_of k) then i :: index_from q r (S i) else index_from q r (S i)
  end.
Definition index (q : key) (l : list key) : list nat := index_from q l 0.
End M.

(* bisect_left(crs, i) + 1 *)
Fixpoint bisect_left (l : list nat) (x : nat) : nat :=
  match l with [] => 0 | y :: r => if Nat.ltb y x then S (bisect_left r x) else 0 end.
Definition line_of_index (crs : list nat) (i : nat) : nat := S (bisect_left crs i).
Fixpoint count_true (l : list bool) : nat := match l with [] => 0 | b :: r => (if b then 1 else 0) + count_true r end.
