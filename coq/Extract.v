(* Extraction of the executable models. ExtrOcamlBasic only: bool, option, unit, list, prod,
   sumbool, comparison map to OCaml's; N, positive, nat stay extracted inductives. No Extract Constant. *)
Require Import Tokenizer Symbols Lines Inst CodeTags Phases Report WriteBack Splice Equiv RoleTable Trace TokenMap Config.
Require Extraction.
Require Import ExtrOcamlBasic.
Extraction Language OCaml.
Extraction "model.ml" vsg_create vsg_read get_lines fix_blank_lines fix_trailing_whitespace kind_code kind_of_code mk stamp has_code_tag violation_suppressed ct check_rules fix_events filter_fix_only fixed_violations mkrule table_rows total sev_counts junit_rows file_status summary_ok_by_type summary_ok exit_status quality_critical write_vhdl_file create_backup apply_rules_fs judge normalise coarse to_tok kinds_ok mkatok n_roles shape_ok glue_free run_c01 run_c02_eq run_c02_sub n_lines index line_of_index configure_rules merge_configs get_configuration mkrobj mksec.
