(* Extraction of the executable models. ExtrOcamlBasic only: bool, option, unit, list, prod,
   sumbool, comparison map to OCaml's; N, positive, nat stay extracted inductives. No Extract Constant. *)
Require Import Tokenizer Symbols.
Require Extraction.
Require Import ExtrOcamlBasic.
Extraction Language OCaml.
Extraction "model.ml" vsg_create.
