(* The whole of rule_list.fix as one function of the token list: the scheduler's event sequence (Phases.fix_events)
   drives updates (Splice.update) whose edits come from the rules, with the normalisation after phase 1.
   Rules are parameters: [edits_of r l] is whatever rule r asks update to do in state l. The theorems say what the
   whole run preserves when every edit set that is actually applied passes its obligation - and that rules which
   are disabled, unfixable, warning-typed, in a skipped phase or beyond --fix_phase never get to apply one. *)
From Coq Require Import List NArith Bool Arith Lia.
Import ListNotations.
Require Import Tokenizer Splice SpliceProofs Equiv EquivProofs Phases PhasesProofs Lines LinesProofs.

Section Full.
Variable edits_of : rule -> list atok -> list (edit atok).   (* after analyze, fix_only filter and _fix_violation *)
Variable norm : list atok -> list atok.                     (* fix_blank_lines; fix_trailing_whitespace *)

Definition apply_event (l : list atok) (e : ev) : list atok :=
  match e with
  | EFix r => if rfixable r then update l (edits_of r l) else l     (* Rule.fix: "if self.fixable:" *)
  | EAnalyze _ => l                                                 (* warning severity: analyse only *)
  | EIndent => l                                                    (* set_token_indent: attributes only *)
  | ENormalise => norm l
  end.
Definition full_run (rules : list rule) (fix_phase : nat) (skip : list nat) (l : list atok) : list atok :=
  fold_left apply_event (fix_events rules fix_phase skip) l.

(* every edit set applied during the run is well formed and passes [ok] *)
Fixpoint events_ok (ok : list atok -> list atok -> bool) (l : list atok) (es : list ev) : bool :=
  match es with
  | [] => true
  | e :: r =>
      (match e with
       | EFix x => if rfixable x then wf_b 0 (length l) (edits_of x l) && forallb (fun d => ok (slice l (e_start d) (e_stop d)) (e_new d)) (edits_of x l) else true
       | _ => true
       end) && events_ok ok (apply_event l e) r
  end.

Section Proj.
Variable B : Type.
Variable proj : list atok -> list B.
Hypothesis proj_app : forall a b, proj (a ++ b) = proj a ++ proj b.
Variable ok : list atok -> list atok -> bool.
Hypothesis ok_sound : forall a b, ok a b = true -> proj a = proj b.
Hypothesis norm_keeps : forall l, proj (norm l) = proj l.

Lemma events_preserve es : forall l, events_ok ok l es = true -> proj (fold_left apply_event es l) = proj l.
Proof.
  induction es as [|e r IH]; intros l H; [reflexivity|].
  cbn [events_ok] in H. apply andb_prop in H. destruct H as [H1 H2].
  cbn [fold_left]. rewrite (IH _ H2). destruct e as [x|x| |]; cbn [apply_event]; auto.
  destruct (rfixable x); [|reflexivity].
  apply andb_prop in H1. destruct H1 as [Hw Hf].
  now apply (step_preserves B proj proj_app ok ok_sound).
Qed.

Theorem full_run_preserves rules fix_phase skip l :
  events_ok ok l (fix_events rules fix_phase skip) = true -> proj (full_run rules fix_phase skip l) = proj l.
Proof. apply events_preserve. Qed.
End Proj.

(* a rule that is disabled, report-only (fixable: false), of warning severity, in a skipped phase or in a phase
   after --fix_phase cannot change the token list, whatever its edits_of is *)
Theorem only_scheduled_rules_edit rules fix_phase skip (P : list atok -> Prop) l :
  P l -> (forall l', P l' -> P (norm l')) ->
  (forall r l', In r rules -> rdisabled r = false -> rerror r = true -> rfixable r = true ->
                1 <= rphase r <= fix_phase -> memn (rphase r) skip = false -> P l' -> P (update l' (edits_of r l'))) ->
  P (full_run rules fix_phase skip l).
Proof.
  intros H0 Hn Hs. unfold full_run.
  assert (G : forall es l', (forall e, In e es -> In e (fix_events rules fix_phase skip)) -> P l' -> P (fold_left apply_event es l')).
  { induction es as [|e r IH]; intros l' Hin Hp; [exact Hp|]. cbn [fold_left]. apply IH; [intros x Hx; apply Hin; now right|].
    destruct e as [x|x| |]; cbn [apply_event]; auto.
    destruct (rfixable x) eqn:Ef; [|exact Hp].
    destruct (fix_calls_only_error_enabled rules fix_phase skip x (Hin _ (or_introl eq_refl))) as (A & B & C & D & E).
    now apply Hs. }
  apply G; auto.
Qed.
End Full.

(* the two normalisers only create and delete whitespace and blank-line tokens: every other token survives, in order *)
Definition kept (t : tok) : bool := negb (kind_eqb (tk t) KWs || kind_eqb (tk t) KBlank).

Lemma fbl_keeps all l : forall prev, filter kept (fbl all prev l) = filter kept l.
Proof.
  induction l as [|t r IH]; intros prev; [reflexivity|]. cbn [fbl].
  destruct (kind_eqb (tk t) KCr && okind_is (match r with n :: _ => Some (tk n) | [] => None end) KCr) eqn:E1.
  - cbn [filter]. rewrite IH. destruct (kept t); reflexivity.
  - destruct (okind_is prev KCr && kind_eqb (tk t) KWs && okind_is (match r with n :: _ => Some (tk n) | [] => None end) KCr) eqn:E2.
    + cbn [filter]. rewrite IH.
      apply andb_prop in E2. destruct E2 as [E2 _]. apply andb_prop in E2. destruct E2 as [_ E2].
      unfold kept. rewrite E2. reflexivity.
    + cbn [filter]. now rewrite IH.
Qed.

Lemma ftw_keeps l : forall prev out, (match out with o :: _ => prev = Some (tk o) | [] => True end) ->
  filter kept (ftw prev out l) = filter kept (rev out) ++ filter kept l.
Proof.
  induction l as [|t r IH]; intros prev out Hp; cbn [ftw]; [now rewrite app_nil_r|].
  destruct (kind_eqb (tk t) KCr && okind_is prev KWs) eqn:E.
  - rewrite IH by reflexivity. cbn [rev filter]. rewrite filter_app. cbn [filter].
    destruct out as [|o out']; cbn [tl rev]; [destruct (kept t); reflexivity|].
    rewrite !filter_app. cbn [filter]. rewrite <- !app_assoc.
    apply andb_prop in E. destruct E as [_ E]. subst prev. cbn in E.
    assert (Ko : kept o = false) by (unfold kept; now rewrite E).
    rewrite Ko. destruct (kept t); reflexivity.
  - rewrite IH by reflexivity. cbn [rev]. rewrite filter_app. cbn [filter]. rewrite <- app_assoc. destruct (kept t); reflexivity.
Qed.

(* everything that is not whitespace or a blank-line token - code, comments, carriage returns - goes through both
   normalisers untouched and in order *)
Lemma drop_stale_keeps l : forall p, filter kept (drop_stale p l) = filter kept l.
Proof.
  induction l as [|t r IH]; intros p; [reflexivity|]. cbn [drop_stale].
  destruct (kind_eqb (tk t) KBlank && negb (p && match r with n :: _ => is_cr n | [] => true end)) eqn:E.
  - apply andb_prop in E. destruct E as [E _]. cbn [filter]. unfold kept at 2. rewrite E, orb_true_r. cbn [negb]. apply IH.
  - cbn [filter]. now rewrite IH.
Qed.

Theorem normalisers_keep l :
  filter kept (fix_trailing_whitespace (fix_blank_lines l)) = filter kept l.
Proof.
  unfold fix_trailing_whitespace, fix_blank_lines. rewrite ftw_keeps by exact I. cbn [rev filter app].
  rewrite fbl_keeps. apply drop_stale_keeps.
Qed.
