From Coq Require Import List NArith Bool Arith Lia Sorted.
Import ListNotations.
Require Import Tokenizer.

Lemma concat_rev_cons (a : str) (acc : list str) :
  concat (rev (a :: acc)) = concat (rev acc) ++ a.
Proof. simpl. rewrite concat_app. simpl. now rewrite app_nil_r. Qed.

Lemma len0_nil {A} (l : list A) : Nat.eqb (length l) 0 = true -> l = [].
Proof. destruct l; simpl; [reflexivity|discriminate]. Qed.

Lemma skipn_skipn' {A} (a b : nat) : forall (l : list A), skipn a (skipn b l) = skipn (b + a) l.
Proof.
  induction b as [|b IH]; intros l; cbn; [reflexivity|].
  destruct l; [now rewrite skipn_nil|apply IH].
Qed.

Section P.
Variable single_syms two_syms three_syms stop_chars : list str.

(* ---------- pass 1 ---------- *)
Lemma cw_concat l : forall acc sp, forallb c_isspace sp = true ->
  concat (cw l acc sp) = concat (rev acc) ++ sp ++ concat l.
Proof.
  induction l as [|c r IH]; intros acc sp Hsp; cbn [cw].
  - rewrite concat_rev_cons. cbn. now rewrite app_nil_r.
  - destruct (s_isspace c) eqn:Hc.
    + rewrite IH.
      * cbn. now rewrite <- app_assoc.
      * rewrite forallb_app, Hsp. unfold s_isspace in Hc.
        apply andb_true_iff in Hc. now destruct Hc as [_ ->].
    + destruct (s_isspace sp) eqn:Hs.
      * rewrite IH by reflexivity. rewrite !concat_rev_cons. cbn. now rewrite <- !app_assoc.
      * assert (sp = []) as ->.
        { unfold s_isspace in Hs. rewrite Hsp, andb_true_r in Hs.
          apply negb_false_iff in Hs. now apply len0_nil. }
        rewrite IH by reflexivity. rewrite concat_rev_cons. cbn. now rewrite <- app_assoc.
Qed.

Lemma concat_to_chars s : concat (to_chars s) = s.
Proof. unfold to_chars. induction s as [|c s IH]; cbn; [reflexivity| now rewrite IH]. Qed.

Lemma combine_whitespace_lossless s : concat (combine_whitespace (to_chars s)) = s.
Proof. unfold combine_whitespace. rewrite cw_concat by reflexivity. cbn [rev concat app]. apply concat_to_chars. Qed.

(* ---------- merging ranges ---------- *)
Lemma merge_range_concat l i j : i <= S j -> concat (merge_range l i j) = concat l.
Proof.
  intros H. unfold merge_range, slice.
  rewrite concat_app. change ([?x] ++ ?y) with (x :: y). cbn [app concat].
  assert (E : skipn (S j) l = skipn (S j - i) (skipn i l)).
  { rewrite skipn_skipn'. f_equal. lia. }
  rewrite E.
  rewrite <- (firstn_skipn i l) at 4. rewrite concat_app. f_equal.
  rewrite <- (firstn_skipn (S j - i) (skipn i l)) at 3. now rewrite concat_app.
Qed.

Lemma combine_quote_pairs_concat pairs : forall l,
  Forall (fun p => fst p <= S (snd p)) pairs ->
  concat (combine_quote_pairs pairs l) = concat l.
Proof.
  induction pairs as [|p ps IH]; intros l H; cbn; [reflexivity|].
  inversion H as [|? ? Hp Hps]; subst.
  unfold combine_quote_pairs in IH. rewrite IH by assumption.
  now apply merge_range_concat.
Qed.

Lemma find_idx_from_ge v l : forall i, Forall (fun k => i <= k) (find_idx_from v l i).
Proof.
  induction l as [|x r IH]; intros i; cbn; [constructor|].
  destruct (str_eqb x v).
  - constructor; [lia|]. eapply Forall_impl; [|apply (IH (S i))]. intros; cbn in *; lia.
  - eapply Forall_impl; [|apply (IH (S i))]. intros; cbn in *; lia.
Qed.

Lemma find_idx_from_sorted v l : forall i,
  Sorted.StronglySorted lt (find_idx_from v l i).
Proof.
  induction l as [|x r IH]; intros i; cbn; [constructor|].
  destruct (str_eqb x v); [|apply IH].
  constructor; [apply IH|].
  eapply Forall_impl; [|apply (find_idx_from_ge v r (S i))]. intros; cbn in *; lia.
Qed.

Lemma pair_up_ok l : Sorted.StronglySorted lt l ->
  Forall (fun p => fst p <= S (snd p)) (pair_up l).
Proof.
  revert l. fix IH 1. intros [|a [|b r]] H; cbn; try constructor.
  - inversion H as [|? ? _ Ha]; subst. inversion Ha; subst. cbn. lia.
  - apply IH. inversion H as [|? ? H1 _]; subst. now inversion H1.
Qed.

Lemma combine_string_literals_lossless l :
  concat (combine_string_literals l) = concat l.
Proof.
  unfold combine_string_literals. apply combine_quote_pairs_concat.
  apply Forall_rev. apply pair_up_ok. apply find_idx_from_sorted.
Qed.

(* ---------- pass 3 ---------- *)
Lemma cb_concat l : forall acc sym b, (b = false -> sym = []) ->
  concat (cb stop_chars l acc sym b) = concat (rev acc) ++ sym ++ concat l.
Proof.
  induction l as [|c r IH]; intros acc sym b Hb; cbn [cb].
  - destruct (Nat.eqb (length sym) 0) eqn:E.
    + apply len0_nil in E. subst. cbn. now rewrite app_nil_r.
    + rewrite concat_rev_cons. cbn. now rewrite app_nil_r.
  - cbn [concat].
    destruct (stop_found stop_chars c b) eqn:Es; destruct (str_eqb c [BS]) eqn:Eb.
    + rewrite IH by discriminate. rewrite concat_rev_cons. cbn. now rewrite <- !app_assoc.
    + rewrite IH by reflexivity. rewrite !concat_rev_cons. cbn. now rewrite <- !app_assoc.
    + rewrite IH by discriminate. now rewrite <- !app_assoc.
    + destruct b.
      * rewrite IH by discriminate. now rewrite <- !app_assoc.
      * rewrite (Hb eq_refl). rewrite IH by reflexivity. rewrite concat_rev_cons. cbn.
        now rewrite <- !app_assoc.
Qed.

Lemma combine_backslash_lossless l : concat (combine_backslash stop_chars l) = concat l.
Proof. unfold combine_backslash. rewrite cb_concat by reflexivity. cbn. reflexivity. Qed.

(* ---------- pass 4 / 5 ---------- *)
Lemma comb_n_concat n syms : forall fuel l r,
  comb_n n syms fuel l = Some r -> concat r = concat l.
Proof.
  induction fuel as [|f IH]; intros l r H; destruct l as [|x t]; cbn in H;
    try (inversion H; subst; reflexivity); try discriminate.
  destruct (mem_str _ syms).
  - destruct (comb_n n syms f (skipn n (x :: t))) eqn:E; [|discriminate].
    inversion H; subst. cbn [concat]. rewrite (IH _ _ E).
    rewrite <- concat_app. now rewrite firstn_skipn.
  - destruct (comb_n n syms f t) eqn:E; [|discriminate].
    inversion H; subst. cbn. now rewrite (IH _ _ E).
Qed.

Lemma comb_n_fuel n syms : 1 <= n -> forall fuel l, length l <= fuel ->
  comb_n n syms fuel l <> None.
Proof.
  intros Hn. induction fuel as [|f IH]; intros l Hl; destruct l as [|x t]; cbn; try congruence.
  - cbn in Hl. lia.
  - destruct (mem_str _ syms).
    + specialize (IH (skipn n (x :: t))).
      destruct (comb_n n syms f (skipn n (x :: t))); [congruence|].
      exfalso. apply IH; [|reflexivity]. rewrite skipn_length. cbn [length] in *. lia.
    + specialize (IH t). destruct (comb_n n syms f t); [congruence|].
      exfalso. apply IH; [|reflexivity]. cbn in Hl. lia.
Qed.

(* ---------- pass 6 ---------- *)
Lemma cwd_concat l : forall acc tmp,
  concat (cwd single_syms l acc tmp) = concat (rev acc) ++ tmp ++ concat l.
Proof.
  induction l as [|c r IH]; intros acc tmp; cbn [cwd].
  - destruct (Nat.eqb (length tmp) 0) eqn:E.
    + apply len0_nil in E. subst. cbn. now rewrite app_nil_r.
    + rewrite concat_rev_cons. cbn. now rewrite app_nil_r.
  - destruct (is_word_char single_syms c).
    + rewrite IH. cbn. now rewrite <- app_assoc.
    + rewrite IH. rewrite concat_rev_cons. cbn [app concat].
      destruct (Nat.eqb (length tmp) 0) eqn:E.
      * apply len0_nil in E. subst. cbn. now rewrite <- app_assoc.
      * rewrite concat_rev_cons. now rewrite <- !app_assoc.
Qed.

(* ---------- pass 7 ---------- *)
Lemma cands_cons2 q q2 r l :
  cands (q :: q2 :: r) l =
  if Nat.eqb (q + 2) q2 && Nat.eqb (length (nth_str l (S q))) 1 && negb (str_eqb (nth_str l (S q)) [LP])
  then (q, q + 2) :: cands (q2 :: r) l else cands (q2 :: r) l.
Proof. reflexivity. Qed.

Lemma cands_ok l : forall quotes, Forall (fun p => fst p <= S (snd p)) (cands quotes l).
Proof.
  induction quotes as [|q r IH]; [constructor|].
  destruct r as [|q2 r']; [constructor|].
  rewrite cands_cons2. destruct (_ && _); [constructor; [cbn; lia|]|]; exact IH.
Qed.

Lemma filt_cons2 all prev a b r :
  filt all prev (a :: b :: r) =
  if Nat.eqb (snd a) (fst b) && Nat.eqb (fst a) (snd prev) then filt all a (b :: r)
  else a :: filt all a (b :: r).
Proof. reflexivity. Qed.

Lemma filt_incl all : forall l prev x, In x (filt all prev l) -> In x l.
Proof.
  induction l as [|a r IH]; intros prev x; [cbn; tauto|].
  destruct r as [|b r']; [cbn; tauto|].
  rewrite filt_cons2. destruct (_ && _).
  - intros H. right. exact (IH a x H).
  - intros [->|H]; [now left|]. right. exact (IH a x H).
Qed.

Lemma combine_char_literals_lossless l : concat (combine_char_literals l) = concat l.
Proof.
  unfold combine_char_literals.
  destruct (cands (find_indexes [SQ] l) l) as [|c cs] eqn:E; [reflexivity|].
  apply combine_quote_pairs_concat. apply Forall_rev.
  apply Forall_forall. intros x Hx. unfold filter_cands in Hx.
  apply filt_incl in Hx.
  pose proof (cands_ok l (find_indexes [SQ] l)) as H. rewrite E in H.
  now apply (proj1 (Forall_forall _ _) H).
Qed.

(* ---------- pass 8 ---------- *)
Lemma pnn_concat s : forall acc tmp, concat (pnn s acc tmp) = concat (rev acc) ++ tmp ++ s.
Proof.
  induction s as [|c r IH]; intros acc tmp; cbn [pnn].
  - destruct (Nat.eqb (length tmp) 0) eqn:E.
    + apply len0_nil in E. subst. cbn. now rewrite app_nil_r.
    + rewrite concat_rev_cons. now rewrite app_nil_r.
  - destruct (N.eqb (c_lower c) E_lo).
    + rewrite IH. rewrite !concat_rev_cons. cbn. now rewrite <- !app_assoc.
    + rewrite IH. now rewrite <- app_assoc.
Qed.

Lemma split_natural_numbers_lossless l : concat (split_natural_numbers l) = concat l.
Proof.
  unfold split_natural_numbers. induction l as [|t r IH]; cbn; [reflexivity|].
  rewrite concat_app, IH. destruct (is_natural_number t); cbn.
  - now rewrite pnn_concat.
  - now rewrite app_nil_r.
Qed.

(* ---------- pass 9 ---------- *)
Lemma concat_filter_nonempty (l : list str) :
  concat (filter (fun t => negb (Nat.eqb (length t) 0)) l) = concat l.
Proof.
  induction l as [|t r IH]; cbn; [reflexivity|].
  destruct t; cbn; [exact IH| now rewrite IH].
Qed.

Lemma sbs_lossless l : concat (sbs l) = concat l.
Proof.
  induction l as [|x r IH]; [reflexivity|].
  destruct r as [|nx r']; [reflexivity|].
  change (sbs (x :: nx :: r')) with
    (if ends_bodx x && starts_dq nx
     then filter (fun t => negb (Nat.eqb (length t) 0))
            [firstn (digits_prefix x) x; skipn (digits_prefix x) x] ++ sbs (nx :: r')
     else x :: sbs (nx :: r')).
  destruct (ends_bodx x && starts_dq nx).
  - rewrite concat_app, IH, concat_filter_nonempty. cbn [concat].
    rewrite app_nil_r, firstn_skipn. reflexivity.
  - cbn [concat]. now rewrite IH.
Qed.

(* ---------- the tokenizer ---------- *)
Definition create' := create single_syms two_syms three_syms stop_chars.

Theorem create_total s : create' s <> None.
Proof.
  unfold create', create.
  destruct (comb_n 3 _ _ _) as [l4|] eqn:E4.
  - destruct (comb_n 2 _ _ l4) eqn:E5; [congruence|].
    exfalso. eapply (comb_n_fuel 2); [lia| |exact E5]. lia.
  - exfalso. eapply (comb_n_fuel 3); [lia| |exact E4]. lia.
Qed.

Theorem create_lossless s r : create' s = Some r -> concat r = s.
Proof.
  unfold create', create. intros H.
  destruct (comb_n 3 _ _ _) as [l4|] eqn:E4; [|discriminate].
  destruct (comb_n 2 _ _ l4) as [l5|] eqn:E5; [|discriminate].
  inversion H; subst; clear H.
  rewrite sbs_lossless, split_natural_numbers_lossless, combine_char_literals_lossless.
  unfold combine_words. rewrite cwd_concat. cbn [rev concat app].
  rewrite (comb_n_concat _ _ _ _ _ E5), (comb_n_concat _ _ _ _ _ E4).
  rewrite combine_backslash_lossless, combine_string_literals_lossless.
  apply combine_whitespace_lossless.
Qed.
End P.
Print Assumptions create_lossless.
Print Assumptions create_total.
