(* Model of the phase scheduler: rule_list.check_rules, rule_list.fix (call sequence), filter_out_disabled_rules,
   enforce_prerequisites, get_rules_in_phase / get_rules_in_subphase, Rule.fix's guard and
   Rule._filter_out_fix_only_violations. *)
From Coq Require Import List Bool Arith Lia.
Import ListNotations.

Record rule := mkrule {
  rid : nat;          (* position in rule_list.rules (load order) *)
  rphase : nat;       (* rule.phase (user configurable) *)
  rsub : nat;         (* rule.subphase *)
  rdisabled : bool;   (* rule.disable *)
  rfixable : bool;    (* rule.fixable *)
  rerror : bool;      (* rule.severity.type == error_type *)
  rprereq : bool      (* rule.prerequisites != [] *)
}.

Definition memn (n : nat) (l : list nat) : bool := existsb (Nat.eqb n) l.
Definition subphases : list nat := [0; 1; 2; 3; 4; 5].
Definition all_phases : list nat := [1; 2; 3; 4; 5; 6; 7].

Definition in_sub (p sp : nat) (r : rule) : bool :=
  Nat.eqb (rphase r) p && Nat.eqb (rsub r) sp && negb (rdisabled r).
(* get_rules_in_phase; get_rules_in_subphase; filter_out_disabled_rules *)
Definition sub_rules (rules : list rule) (p sp : nat) : list rule := filter (in_sub p sp) rules.

(* ------------------------------------------------------------------ check_rules *)
Section Check.
Variable nviol : rule -> nat.   (* len(rule.violations) after analyze *)
Variable rules : list rule.

Record cst := mkcst { analysed : list rule; fails : nat; lastp : nat; flag : bool }.

Definition errs (rs : list rule) : nat := list_sum (map (fun r => if rerror r then nviol r else 0) rs).

Definition run_sub (p : nat) (c : cst) (sp : nat) : cst :=
  let rs := sub_rules rules p sp in
  let f := fails c + errs rs in
  mkcst (analysed c ++ rs) f p (flag c || Nat.ltb 0 f).

Fixpoint check_loop (phases : list nat) (allp : bool) (skip : list nat) (c : cst) : cst :=
  match phases with
  | [] => c
  | p :: ps =>
      if memn p skip then check_loop ps allp skip c
      else
        let c' := fold_left (run_sub p) subphases c in
        if flag c' && negb allp then c' else check_loop ps allp skip c'
  end.

Definition check_rules (allp : bool) (skip : list nat) : cst :=
  check_loop all_phases allp skip (mkcst [] 0 0 false).
End Check.

(* report: walks self.rules in load order, a rule that was not analysed has no violations *)
Definition reported (c : cst) (r : rule) : bool := existsb (fun a => Nat.eqb (rid a) (rid r)) (analysed c).
Definition report {V} (viols : rule -> list V) (rules : list rule) (c : cst) : list (rule * V) :=
  flat_map (fun r => map (fun v => (r, v)) (viols r)) (filter (reported c) rules).

(* ------------------------------------------------------------------ fix: the call sequence *)
Inductive ev := EFix (r : rule) | EAnalyze (r : rule) | EIndent | ENormalise.

Definition enforce_prereq (l : list rule) : list rule :=
  filter (fun r => negb (rprereq r)) l ++ filter rprereq l.

Definition fix_sub (rules : list rule) (p sp : nat) : list ev :=
  map (fun r => if rerror r then EFix r else EAnalyze r) (enforce_prereq (sub_rules rules p sp)).

Fixpoint fix_loop (rules : list rule) (phases : list nat) (skip : list nat) : list ev :=
  match phases with
  | [] => []
  | p :: ps =>
      (if memn p skip then (if Nat.eqb p 1 then [EIndent] else [])
       else (if Nat.eqb p 4 then [EIndent] else [])
            ++ flat_map (fix_sub rules p) subphases
            ++ (if Nat.eqb p 1 then [ENormalise] else []))
      ++ fix_loop rules ps skip
  end.
Definition fix_events (rules : list rule) (fix_phase : nat) (skip : list nat) : list ev :=
  fix_loop rules (seq 1 fix_phase) skip.

(* ------------------------------------------------------------------ --fix_only *)
Inductive sel := SAll | SLine (n : nat).
Definition is_all (s : sel) : bool := match s with SAll => true | _ => false end.
Definition is_line (n : nat) (s : sel) : bool := match s with SLine m => Nat.eqb m n | _ => false end.
Fixpoint lookup (k : nat) (m : list (nat * list sel)) : option (list sel) :=
  match m with [] => None | (k', v) :: r => if Nat.eqb k k' then Some v else lookup k r end.

(* None: no --fix_only. Some m: dFixOnly["fix"]["rule"]; a missing key anywhere is a KeyError = not in m *)
Definition filter_fix_only {V} (line : V -> nat) (d : option (list (nat * list sel))) (r : rule) (vs : list V) : list V :=
  match d with
  | None => vs
  | Some m =>
      match lookup (rid r) m with
      | None => []
      | Some ls => if existsb is_all ls then vs else filter (fun v => existsb (is_line (line v)) ls) vs
      end
  end.

(* Rule.fix: the violations whose _fix_violation is executed, and had_violations *)
Definition fixed_violations {V} (line : V -> nat) (d : option (list (nat * list sel))) (r : rule) (analysed_vs : list V) : list V :=
  if rfixable r then filter_fix_only line d r analysed_vs else [].
