(* The two normalisers of rule_list.fix after phase 1, as one function: where they are the identity (the second
   fix run of C09 starts from such a list when the first run left no trailing whitespace), and why "running them
   twice equals running them once" needs a hypothesis. *)
From Coq Require Import List NArith Bool Arith Lia.
Import ListNotations.
Require Import Tokenizer Lines LinesProofs Shape ShapeProofs.

Definition normalise_toks (l : list tok) : list tok := fix_trailing_whitespace (fix_blank_lines l).

Fixpoint no_ws_cr (l : list tok) : bool :=
  match l with
  | a :: r => match r with b :: _ => negb (is_ws a && is_cr b) | [] => true end && no_ws_cr r
  | [] => true
  end.

Lemma no_ws_cr_free l : no_ws_cr l = true -> ws_before_cr_free l.
Proof.
  intros H pre. revert l H. induction pre as [|p pre IH]; intros l H a b post E Ha Hb.
  - subst l. cbn in H. rewrite Ha, Hb in H. discriminate.
  - subst l. cbn [app no_ws_cr] in H. apply andb_prop in H. destruct H as [_ H].
    eapply IH; [exact H|reflexivity|exact Ha|exact Hb].
Qed.

Lemma drop_stale_id l : forall p q, (q = true -> p = true) -> alone_from q l = true -> drop_stale p l = l.
Proof.
  induction l as [|t r IH]; intros p q Hpq H; [reflexivity|].
  cbn [alone_from] in H. apply andb_prop in H. destruct H as [Hb Hr].
  cbn [drop_stale].
  destruct (kind_eqb (tk t) KBlank) eqn:Eb; cbn [andb].
  - unfold is_blank in Hb. rewrite Eb in Hb. apply andb_prop in Hb. destruct Hb as [Hq Hn].
    rewrite (Hpq Hq), Hn. cbn [andb negb]. f_equal. apply (IH _ (is_cr t)); auto.
  - f_equal. apply (IH _ (is_cr t)); auto.
Qed.

Lemma fbl_id all l : forall prev, no_cr_cr l = true -> no_ws_cr l = true -> fbl all prev l = l.
Proof.
  induction l as [|t r IH]; intros prev H1 H2; [reflexivity|].
  cbn [no_cr_cr] in H1. apply andb_prop in H1. destruct H1 as [H1 H1r].
  cbn [no_ws_cr] in H2. apply andb_prop in H2. destruct H2 as [H2 H2r].
  cbn [fbl].
  destruct r as [|n r'].
  - cbn [okind_is]. rewrite !andb_false_r. reflexivity.
  - cbn [okind_is]. fold (is_cr n). fold (is_cr t).
    apply negb_true_iff in H1. rewrite H1.
    assert (E2 : kind_eqb (tk t) KWs && is_cr n = false) by (apply negb_true_iff in H2; exact H2).
    rewrite <- andb_assoc, E2, andb_false_r.
    f_equal. apply IH; assumption.
Qed.

(* on a list in which every blank_line object is alone on its line, no line is empty and no whitespace stands at
   the end of a line, the normalisers change nothing *)
Theorem normalisers_identity_on_clean l :
  alone_from true l = true -> no_cr_cr l = true -> no_ws_cr l = true ->
  (match l with t :: _ => is_cr t = true -> is_ws (last l t) = false | [] => True end) ->
  normalise_toks l = l.
Proof.
  intros Ha Hc Hw He. unfold normalise_toks, fix_blank_lines.
  rewrite (drop_stale_id l true true) by auto.
  rewrite fbl_id by assumption.
  apply fix_trailing_whitespace_noop; [apply no_ws_cr_free; exact Hw|exact He].
Qed.

Example clean_list_exists :
  let l := [mk KItem [97%N]; CR; mk KBlank []; CR; mk KWs [32%N]; mk KItem [98%N]; CR] in
  alone_from true l = true /\ no_cr_cr l = true /\ no_ws_cr l = true /\ normalise_toks l = l.
Proof. repeat split. Qed.

(* without a hypothesis "running the normalisers twice equals running them once" is false: of two adjacent
   whitespace objects at the end of a line each run removes one (the known finding "adjacent whitespace tokens":
   the second --fix changes the file again) *)
Example normalise_idempotent_refuted :
  exists l, normalise_toks (normalise_toks l) <> normalise_toks l.
Proof.
  exists [mk KItem [97%N]; mk KWs [32%N]; mk KWs [32%N]; CR]. vm_compute. discriminate.
Qed.
