(* The two normalisers of rule_list.fix after phase 1, as one function: where they are the identity (the second
   fix run of C09 starts from such a list when the first run left no trailing whitespace), and why "running them
   twice equals running them once" needs a hypothesis. *)
From Coq Require Import List NArith Bool Arith Lia.
Import ListNotations.
Require Import Tokenizer Lines LinesProofs Shape ShapeProofs.

Definition normalise_toks (l : list tok) : list tok := fix_trailing_whitespace (fix_blank_lines l).

Fixpoint no_ws_cr (l : list tok) : bool :=
  match l with
  | a :: r => match r with b :: _ => negb (is_ws a && is_cr b) | [] => true end && no_ws_cr r
  | [] => true
  end.

Lemma no_ws_cr_free l : no_ws_cr l = true -> ws_before_cr_free l.
Proof.
  intros H pre. revert l H. induction pre as [|p pre IH]; intros l H a b post E Ha Hb.
  - subst l. cbn in H. rewrite Ha, Hb in H. discriminate.
  - subst l. cbn [app no_ws_cr] in H. apply andb_prop in H. destruct H as [_ H].
    eapply IH; [exact H|reflexivity|exact Ha|exact Hb].
Qed.

Lemma drop_stale_id l : forall p q, (q = true -> p = true) -> alone_from q l = true -> drop_stale p l = l.
Proof.
  induction l as [|t r IH]; intros p q Hpq H; [reflexivity|].
  cbn [alone_from] in H. apply andb_prop in H. destruct H as [Hb Hr].
  cbn [drop_stale].
  destruct (kind_eqb (tk t) KBlank) eqn:Eb; cbn [andb].
  - unfold is_blank in Hb. rewrite Eb in Hb. apply andb_prop in Hb. destruct Hb as [Hq Hn].
    rewrite (Hpq Hq), Hn. cbn [andb negb]. f_equal. apply (IH _ (is_cr t)); auto.
  - f_equal. apply (IH _ (is_cr t)); auto.
Qed.

Lemma fbl_id all l : forall prev, no_cr_cr l = true -> no_ws_cr l = true -> fbl all prev l = l.
Proof.
  induction l as [|t r IH]; intros prev H1 H2; [reflexivity|].
  cbn [no_cr_cr] in H1. apply andb_prop in H1. destruct H1 as [H1 H1r].
  cbn [no_ws_cr] in H2. apply andb_prop in H2. destruct H2 as [H2 H2r].
  cbn [fbl].
  destruct r as [|n r'].
  - cbn [okind_is]. rewrite !andb_false_r. reflexivity.
  - cbn [okind_is]. fold (is_cr n). fold (is_cr t).
    apply negb_true_iff in H1. rewrite H1.
    assert (E2 : kind_eqb (tk t) KWs && is_cr n = false) by (apply negb_true_iff in H2; exact H2).
    rewrite <- andb_assoc, E2, andb_false_r.
    f_equal. apply IH; assumption.
Qed.

(* on a list in which every blank_line object is alone on its line, no line is empty and no whitespace stands at
   the end of a line, the normalisers change nothing *)
Theorem normalisers_identity_on_clean l :
  alone_from true l = true -> no_cr_cr l = true -> no_ws_cr l = true ->
  (match l with t :: _ => is_cr t = true -> is_ws (last l t) = false | [] => True end) ->
  normalise_toks l = l.
Proof.
  intros Ha Hc Hw He. unfold normalise_toks, fix_blank_lines.
  rewrite (drop_stale_id l true true) by auto.
  rewrite fbl_id by assumption.
  apply fix_trailing_whitespace_noop; [apply no_ws_cr_free; exact Hw|exact He].
Qed.

Example clean_list_exists :
  let l := [mk KItem [97%N]; CR; mk KBlank []; CR; mk KWs [32%N]; mk KItem [98%N]; CR] in
  alone_from true l = true /\ no_cr_cr l = true /\ no_ws_cr l = true /\ normalise_toks l = l.
Proof. repeat split. Qed.

(* without a hypothesis "running the normalisers twice equals running them once" is false: of two adjacent
   whitespace objects at the end of a line each run removes one (the known finding "adjacent whitespace tokens":
   the second --fix changes the file again) *)
Example normalise_idempotent_refuted :
  exists l, normalise_toks (normalise_toks l) <> normalise_toks l.
Proof.
  exists [mk KItem [97%N]; mk KWs [32%N]; mk KWs [32%N]; CR]. vm_compute. discriminate.
Qed.

(* ---- the reader shape gives the adjacency hypotheses ---- *)
Definition cur_ok (cur : list tok) (l : list tok) : Prop :=
  match cur with
  | [] => alone_from true l = true
  | [b] => if is_blank b
           then match l with [] => True | n :: r => is_cr n = true /\ alone_from true r = true end
           else alone_from false l = true
  | _ => existsb is_blank cur = false -> alone_from false l = true
  end.

Lemma line_ok_rev_two a b cur : line_ok (rev (a :: b :: cur)) = true -> existsb is_blank (a :: b :: cur) = false.
Proof.
  intros H. remember (rev (a :: b :: cur)) as x eqn:E.
  assert (L : length x = S (S (length cur))) by (subst x; rewrite rev_length; reflexivity).
  destruct x as [|x1 [|x2 xs]]; [discriminate L|discriminate L|].
  unfold line_ok in H. apply negb_true_iff in H.
  destruct (existsb is_blank (a :: b :: cur)) eqn:Ex; [|reflexivity].
  apply existsb_exists in Ex. destruct Ex as [t [Hin Ht]].
  assert (Hin' : In t (x1 :: x2 :: xs)) by (rewrite E; apply -> in_rev; exact Hin).
  assert (existsb is_blank (x1 :: x2 :: xs) = true) by (apply existsb_exists; exists t; auto).
  congruence.
Qed.

(* a line that already holds two objects holds no blank_line object *)
Lemma long_line_no_blank r : forall cur, forallb line_ok (split_cr r cur) = true -> 2 <= length cur -> existsb is_blank cur = false.
Proof.
  induction r as [|x r IH]; intros cur H L.
  - destruct cur as [|p [|q c]]; cbn in L; try lia. cbn [split_cr forallb] in H. rewrite andb_true_r in H.
    apply line_ok_rev_two. exact H.
  - cbn [split_cr] in H. destruct (is_cr x).
    + cbn [forallb] in H. apply andb_prop in H. destruct H as [H _].
      destruct cur as [|p [|q c]]; cbn in L; try lia. apply line_ok_rev_two. exact H.
    + assert (E := IH (x :: cur) H). cbn [length] in E. specialize (E ltac:(lia)).
      cbn [existsb] in E. apply orb_false_elim in E. apply E.
Qed.

Lemma shape_lines_alone l : forall cur,
  forallb line_ok (split_cr l cur) = true ->
  (match cur with _ :: _ :: _ => existsb is_blank cur = false | _ => True end) ->
  cur_ok cur l.
Proof.
  induction l as [|t r IH]; intros cur H Hc.
  - destruct cur as [|a [|b c]]; cbn; auto. destruct (is_blank a); auto.
  - cbn [split_cr] in H. destruct (is_cr t) eqn:Et.
    + cbn [forallb] in H. apply andb_prop in H. destruct H as [Hl Hr].
      specialize (IH [] Hr I). cbn in IH.
      assert (Nb : is_blank t = false) by (unfold is_blank; apply cr_not_blank; exact Et).
      destruct cur as [|a [|b c]].
      * cbn in Hl. discriminate.
      * cbn. destruct (is_blank a) eqn:Ba.
        -- split; assumption.
        -- cbn [alone_from]. rewrite Nb, Et. exact IH.
      * cbn. intros _. cbn [alone_from]. rewrite Nb, Et. exact IH.
    + assert (IH' := IH (t :: cur) H).
      destruct cur as [|a [|b c]].
      * specialize (IH' I). cbn in IH'. cbn. cbn [alone_from]. rewrite Et.
        destruct (is_blank t) eqn:Bt.
        -- destruct r as [|n r']; [reflexivity|]. destruct IH' as [Hn Hr']. rewrite Hn. cbn [andb].
           cbn [alone_from]. unfold is_blank at 1. rewrite (cr_not_blank _ Hn), Hn. exact Hr'.
        -- exact IH'.
      * (* cur = [a]; the line now holds two objects: neither may be a blank_line *)
        assert (Two : existsb is_blank [t; a] = false).
        { apply (long_line_no_blank r [t; a] H). cbn. lia. }
        specialize (IH' Two). cbn in IH'. specialize (IH' Two).
        cbn [existsb] in Two. apply orb_false_elim in Two. destruct Two as [Bt Ba0].
        apply orb_false_elim in Ba0. destruct Ba0 as [Ba _].
        cbn. rewrite Ba. cbn [alone_from]. rewrite Bt, Et. exact IH'.
      * assert (Ex : existsb is_blank (t :: a :: b :: c) = false -> alone_from false r = true).
        { intros E. specialize (IH' E). cbn in IH'. exact (IH' E). }
        cbn. intros Eabc. cbn [alone_from].
        (* t is not a blank either: otherwise the line has three objects one of which is a blank *)
        destruct (is_blank t) eqn:Bt.
        -- exfalso.
           assert (E := long_line_no_blank r (t :: a :: b :: c) H ltac:(cbn; lia)). cbn [existsb] in E. rewrite Bt in E. discriminate.
        -- rewrite Et. cbn [andb]. apply Ex. cbn [existsb]. rewrite Bt. exact Eabc.
Qed.

Lemma shape_lines_no_cr_cr l : forall cur,
  forallb line_ok (split_cr l cur) = true -> (cur = [] -> hd_not_cr l) /\ no_cr_cr l = true.
Proof.
  induction l as [|t r IH]; intros cur H; [split; [intros _; exact I|reflexivity]|].
  cbn [split_cr] in H. destruct (is_cr t) eqn:Et.
  - cbn [forallb] in H. apply andb_prop in H. destruct H as [Hl Hr].
    destruct (IH [] Hr) as [Hh Hn]. split.
    + intros ->. cbn in Hl. discriminate.
    + apply no_cr_cr_cons; [exact Hn|right; exact (Hh eq_refl)].
  - destruct (IH (t :: cur) H) as [_ Hn]. split.
    + intros _. exact Et.
    + apply no_cr_cr_cons; [exact Hn|left; exact Et].
Qed.

(* what the reader returns for a text without whitespace at the end of a line is a fixed point of the normalisers:
   the normalisation step of a second fix run changes nothing *)
Theorem normalisers_identity_on_reader_shape l :
  shape l = true -> no_ws_cr l = true -> normalise_toks l = l.
Proof.
  intros Hs Hw. unfold shape in Hs. apply andb_prop in Hs. destruct Hs as [Hl _].
  pose proof (shape_lines_alone l [] Hl I) as Ha. cbn in Ha.
  destruct (shape_lines_no_cr_cr l [] Hl) as [Hh Hn].
  apply normalisers_identity_on_clean; try assumption.
  destruct l as [|t r]; [exact I|]. intros Hc. specialize (Hh eq_refl). cbn in Hh. congruence.
Qed.
