From Coq Require Import List Bool Arith Lia Sorted.
Import ListNotations.
Require Import Phases.

Lemma memn_In n l : memn n l = true <-> In n l.
Proof.
  unfold memn. rewrite existsb_exists. split.
  - intros (x & Hx & E). apply Nat.eqb_eq in E. now subst.
  - intros H. exists n. split; [assumption|apply Nat.eqb_refl].
Qed.

Lemma sub_rules_phase rules p sp r : In r (sub_rules rules p sp) ->
  In r rules /\ rphase r = p /\ rsub r = sp /\ rdisabled r = false.
Proof.
  unfold sub_rules, in_sub. rewrite filter_In. intros [H1 H2].
  apply andb_prop in H2. destruct H2 as [H2 H3]. apply andb_prop in H2. destruct H2 as [H2 H4].
  apply Nat.eqb_eq in H2, H4. apply negb_true_iff in H3. auto.
Qed.

Section Check.
Variable nviol : rule -> nat.
Variable rules : list rule.
Variable skip : list nat.

Notation errs := (errs nviol).
Notation run_sub := (run_sub nviol rules).
Notation check_loop := (check_loop nviol rules).

Definition block (p : nat) : list rule := flat_map (sub_rules rules p) subphases.

Lemma errs_app a b : errs (a ++ b) = errs a + errs b.
Proof. unfold Phases.errs. now rewrite map_app, list_sum_app. Qed.

Lemma block_phase p r : In r (block p) -> In r rules /\ rphase r = p /\ rdisabled r = false.
Proof.
  unfold block. rewrite in_flat_map. intros (sp & _ & H). apply sub_rules_phase in H. tauto.
Qed.

(* state invariant: the flag says exactly "some error-type violation so far"; the counter is the sum *)
Definition Inv (c : cst) : Prop := flag c = Nat.ltb 0 (fails c) /\ fails c = errs (analysed c).

Lemma run_subs_spec p sps : forall c, Inv c -> sps <> [] ->
  let c' := fold_left (run_sub p) sps c in
  analysed c' = analysed c ++ flat_map (sub_rules rules p) sps /\ lastp c' = p /\ Inv c'.
Proof.
  induction sps as [|sp r IH]; intros c [Hf Hs] Hne; [congruence|].
  cbn [fold_left flat_map].
  set (c1 := run_sub p c sp).
  assert (I1 : Inv c1).
  { unfold c1, Phases.run_sub, Inv. cbn [flag fails analysed]. split.
    - rewrite Hf. destruct (fails c); cbn; [reflexivity|]. reflexivity.
    - rewrite errs_app. lia. }
  assert (A1 : analysed c1 = analysed c ++ sub_rules rules p sp) by reflexivity.
  assert (L1 : lastp c1 = p) by reflexivity.
  destruct r as [|sp2 r2].
  - cbn [fold_left flat_map]. rewrite app_nil_r. auto.
  - destruct (IH c1 I1 ltac:(discriminate)) as (Ha & Hl & Hi).
    cbv zeta. rewrite Ha, A1, <- app_assoc. auto.
Qed.

Definition step (p : nat) (c : cst) : cst := fold_left (run_sub p) subphases c.

Lemma step_spec p c : Inv c ->
  analysed (step p c) = analysed c ++ block p /\ lastp (step p c) = p /\ Inv (step p c).
Proof. intros H. apply (run_subs_spec p subphases c H). discriminate. Qed.

Lemma check_loop_cons p ps allp c :
  check_loop (p :: ps) allp skip c =
  if memn p skip then check_loop ps allp skip c
  else if flag (step p c) && negb allp then step p c else check_loop ps allp skip (step p c).
Proof. reflexivity. Qed.

(* the all-phases run from c analyses c's rules plus rules of the remaining phases *)
Lemma ap_analysed ps : forall c, Inv c -> exists rest,
  analysed (check_loop ps true skip c) = analysed c ++ rest /\
  (forall r, In r rest -> In (rphase r) ps /\ In r rules /\ rdisabled r = false /\ memn (rphase r) skip = false).
Proof.
  induction ps as [|p ps IH]; intros c Hc.
  - exists []. cbn. rewrite app_nil_r. split; [reflexivity|intros r []].
  - rewrite check_loop_cons. destruct (memn p skip) eqn:Hs.
    + destruct (IH c Hc) as (rest & Ha & Hr). exists rest. split; [exact Ha|].
      intros r Hin. destruct (Hr r Hin) as (H1 & H2). split; [now right|exact H2].
    + rewrite andb_false_r.
      destruct (step_spec p c Hc) as (Sa & Sl & Si).
      destruct (IH (step p c) Si) as (rest & Ha & Hr).
      exists (block p ++ rest). split; [now rewrite Ha, Sa, app_assoc|].
      intros r Hin. apply in_app_or in Hin. destruct Hin as [Hin|Hin].
      * apply block_phase in Hin. destruct Hin as (H1 & H2 & H3). subst p. repeat split; auto. now left.
      * destruct (Hr r Hin) as (H1 & H2). split; [now right|exact H2].
Qed.

(* the gated run is a prefix of the all-phases run, cut after the phase it stopped in *)
Lemma gated_prefix ps : forall c, Inv c -> StronglySorted lt ps -> Forall (fun p => lastp c < p) ps ->
  (forall r, In r (analysed c) -> rphase r <= lastp c) ->
  let g := check_loop ps false skip c in
  let a := check_loop ps true skip c in
  exists rest, analysed a = analysed g ++ rest /\
    (forall r, In r rest -> lastp g < rphase r) /\
    (forall r, In r (analysed g) -> rphase r <= lastp g) /\
    (flag g = false -> rest = []) /\ Inv g.
Proof.
  induction ps as [|p ps IH]; intros c Hc Hsort Hlt Hle.
  - exists []. cbn. rewrite app_nil_r. repeat split; auto; try apply Hc. intros r [].
  - inversion Hsort as [|? ? Hs1 Hs2]; subst. inversion Hlt as [|? ? Hl1 Hl2]; subst.
    cbv zeta. rewrite !check_loop_cons. destruct (memn p skip) eqn:Hs.
    + apply IH; assumption.
    + rewrite andb_false_r, andb_true_r.
      destruct (step_spec p c Hc) as (Sa & Sl & Si).
      assert (Hle' : forall r, In r (analysed (step p c)) -> rphase r <= lastp (step p c)).
      { intros r Hin. rewrite Sa in Hin. rewrite Sl. apply in_app_or in Hin. destruct Hin as [Hin|Hin].
        - apply Hle in Hin. lia.
        - apply block_phase in Hin. lia. }
      destruct (flag (step p c)) eqn:Hf.
      * destruct (ap_analysed ps (step p c) Si) as (rest & Ha & Hr).
        exists rest. split; [exact Ha|]. split; [|split; [exact Hle'|split; [congruence|exact Si]]].
        intros r Hin. rewrite Sl. destruct (Hr r Hin) as (H1 & _).
        rewrite Forall_forall in Hs2. now apply Hs2.
      * apply IH; auto.
Qed.

Lemma all_phases_sorted : StronglySorted lt all_phases.
Proof. unfold all_phases. repeat constructor. Qed.

Lemma filter_all {A} (f : A -> bool) l : (forall x, In x l -> f x = true) -> filter f l = l.
Proof. induction l as [|a l IH]; cbn; intros H; [reflexivity|]. rewrite (H a (or_introl eq_refl)). f_equal. apply IH. auto. Qed.
Lemma filter_none {A} (f : A -> bool) l : (forall x, In x l -> f x = false) -> filter f l = [].
Proof. induction l as [|a l IH]; cbn; intros H; [reflexivity|]. rewrite (H a (or_introl eq_refl)). apply IH. auto. Qed.

Definition c0 : cst := mkcst [] 0 0 false.
Lemma Inv0 : Inv c0. Proof. split; reflexivity. Qed.

(* C13: the sequence of rules analysed without --all_phases is the sequence analysed with it, restricted to the
   phases up to the one the gated run stopped in *)
Theorem gated_is_prefix :
  let g := check_rules nviol rules false skip in
  let a := check_rules nviol rules true skip in
  analysed g = filter (fun r => Nat.leb (rphase r) (lastp g)) (analysed a) /\
  (flag g = false -> analysed g = analysed a).
Proof.
  cbv zeta. unfold check_rules. fold c0.
  destruct (gated_prefix all_phases c0 Inv0 all_phases_sorted) as (rest & Ha & Hr & Hg & Hf & _).
  { unfold all_phases. cbn. repeat constructor. }
  { intros r []. }
  split.
  - rewrite Ha, filter_app, filter_all, filter_none, app_nil_r; [reflexivity| |].
    + intros r Hin. apply Hr in Hin. apply Nat.leb_gt. exact Hin.
    + intros r Hin. apply Hg in Hin. now apply Nat.leb_le.
  - intros H. rewrite Ha, (Hf H), app_nil_r. reflexivity.
Qed.

(* the gated run stops exactly when the first error-type violation has been counted *)
Theorem gated_flag_iff_errors :
  let g := check_rules nviol rules false skip in
  flag g = Nat.ltb 0 (errs (analysed g)).
Proof.
  cbv zeta. unfold check_rules. fold c0.
  destruct (gated_prefix all_phases c0 Inv0 all_phases_sorted) as (rest & _ & _ & _ & _ & [H1 H2]).
  { unfold all_phases. cbn. repeat constructor. }
  { intros r []. }
  now rewrite H1, H2.
Qed.

(* what is analysed at all: enabled rules of phases that are not skipped *)
Theorem analysed_sound allp r : In r (analysed (check_rules nviol rules allp skip)) ->
  In r rules /\ rdisabled r = false /\ memn (rphase r) skip = false /\ In (rphase r) all_phases.
Proof.
  unfold check_rules. fold c0.
  assert (G : forall ps c, Inv c -> forall r, In r (analysed (check_loop ps allp skip c)) ->
            In r (analysed c) \/ (In r rules /\ rdisabled r = false /\ memn (rphase r) skip = false /\ In (rphase r) ps)).
  { induction ps as [|p ps IH]; intros c Hc x Hin; [now left|].
    rewrite check_loop_cons in Hin. destruct (memn p skip) eqn:Hs.
    - destruct (IH c Hc x Hin) as [H|H]; [now left|right]. intuition.
    - destruct (step_spec p c Hc) as (Sa & Sl & Si).
      assert (B : In x (analysed (step p c)) -> In x (analysed c) \/ (In x rules /\ rdisabled x = false /\ memn (rphase x) skip = false /\ In (rphase x) (p :: ps))).
      { rewrite Sa. intros H. apply in_app_or in H. destruct H as [H|H]; [now left|right].
        apply block_phase in H. destruct H as (H1 & H2 & H3). subst p. repeat split; auto. now left. }
      destruct (flag (step p c) && negb allp); [now apply B|].
      destruct (IH (step p c) Si x Hin) as [H|H]; [now apply B|right]. intuition. }
  intros H. destruct (G all_phases c0 Inv0 r H) as [[]|H']. exact H'.
Qed.
End Check.

(* the report of the gated run = the report of the all-phases run restricted to phases <= the stop phase,
   provided rule ids are unique *)
Lemma reported_iff c r : reported c r = true <-> exists a, In a (analysed c) /\ rid a = rid r.
Proof. unfold reported. rewrite existsb_exists. split; intros (a & H1 & H2); exists a; split; auto; now apply Nat.eqb_eq. Qed.

Theorem gated_report_is_prefix {V} (viols : rule -> list V) nviol rules skip :
  NoDup (map rid rules) ->
  let g := check_rules nviol rules false skip in
  let a := check_rules nviol rules true skip in
  report viols rules g = filter (fun rv => Nat.leb (rphase (fst rv)) (lastp g)) (report viols rules a).
Proof.
  intros Hnd g a. unfold report.
  assert (Huniq : forall x y, In x rules -> In y rules -> rid x = rid y -> x = y).
  { clear -Hnd. induction rules as [|z l IH]; intros x y Hx Hy E; [destruct Hx|].
    inversion Hnd as [|? ? Hn Hd]; subst. destruct Hx as [->|Hx], Hy as [->|Hy]; auto.
    - exfalso. apply Hn. rewrite E. now apply in_map.
    - exfalso. apply Hn. rewrite <- E. now apply in_map. }
  destruct (gated_is_prefix nviol rules skip) as [Hp _]. fold g a in Hp.
  assert (Hrep : forall r, In r rules -> reported g r = reported a r && Nat.leb (rphase r) (lastp g)).
  { intros r Hr. apply eq_true_iff_eq. rewrite andb_true_iff, !reported_iff. split.
    - intros (x & Hx & E). rewrite Hp in Hx. apply filter_In in Hx. destruct Hx as [Hx Hl].
      assert (x = r).
      { apply Huniq; auto. eapply analysed_sound. exact Hx. }
      subst x. split; [exists r; auto|exact Hl].
    - intros [(x & Hx & E) Hl].
      assert (x = r).
      { apply Huniq; auto. eapply analysed_sound. exact Hx. }
      subst x. exists r. split; [|reflexivity]. rewrite Hp. apply filter_In. auto. }
  clear Hp Huniq Hnd. revert Hrep.
  generalize (reported g) (reported a) (lastp g). intros P Q n. clear g a.
  induction rules as [|r l IH]; intros Hrep; [reflexivity|].
  cbn [filter]. rewrite (Hrep r (or_introl eq_refl)).
  assert (IH' := IH (fun x Hx => Hrep x (or_intror Hx))).
  destruct (Q r); cbn [andb].
  - cbn [flat_map]. rewrite filter_app. destruct (Nat.leb (rphase r) n) eqn:El.
    + cbn [flat_map]. f_equal; [|exact IH'].
      symmetry. apply filter_all. intros [x v] Hin. apply in_map_iff in Hin. destruct Hin as (v' & E & _). inversion E; subst. exact El.
    + rewrite (filter_none (fun rv : rule * V => Nat.leb (rphase (fst rv)) n) (map (fun v => (r, v)) (viols r))); [exact IH'|].
      intros [x v] Hin. apply in_map_iff in Hin. destruct Hin as (v' & E & _). inversion E; subst. exact El.
  - exact IH'.
Qed.

(* ------------------------------------------------------------------ fix *)
Lemma enforce_prereq_In l r : In r (enforce_prereq l) <-> In r l.
Proof.
  unfold enforce_prereq. rewrite in_app_iff, !filter_In. split; [tauto|].
  intros H. destruct (rprereq r) eqn:E; [right|left]; auto.
Qed.

Lemma fix_sub_In rules p sp e : In e (fix_sub rules p sp) ->
  exists r, In r rules /\ rphase r = p /\ rdisabled r = false /\ e = (if rerror r then EFix r else EAnalyze r).
Proof.
  unfold fix_sub. rewrite in_map_iff. intros (r & E & Hin). apply (proj1 (enforce_prereq_In _ _)) in Hin.
  apply sub_rules_phase in Hin. exists r. intuition.
Qed.

Lemma fix_loop_rule rules skip ps e : In e (fix_loop rules ps skip) ->
  (e = EIndent \/ e = ENormalise) \/
  exists r, In r rules /\ In (rphase r) ps /\ memn (rphase r) skip = false /\ rdisabled r = false /\
            e = (if rerror r then EFix r else EAnalyze r).
Proof.
  induction ps as [|p ps IH]; cbn [fix_loop]; [intros []|].
  intros H. apply in_app_or in H. destruct H as [H|H].
  - destruct (memn p skip) eqn:Hs.
    + destruct (Nat.eqb p 1); [destruct H as [<-|[]]; auto|destruct H].
    + apply in_app_or in H. destruct H as [H|H].
      * destruct (Nat.eqb p 4); [destruct H as [<-|[]]; auto|destruct H].
      * apply in_app_or in H. destruct H as [H|H].
        -- right. apply in_flat_map in H. destruct H as (sp & _ & H). apply fix_sub_In in H.
           destruct H as (r & H1 & H2 & H3 & H4). subst p. exists r. repeat split; auto. now left.
        -- destruct (Nat.eqb p 1); [destruct H as [<-|[]]; auto|destruct H].
  - destruct (IH H) as [?|(r & H1 & H2 & H3)]; [now left|right]. exists r. split; [auto|]. split; [now right|auto].
Qed.

(* C03 / C13: Rule.fix is only ever called for enabled, error-typed rules of phases 1..fix_phase that are not skipped *)
Theorem fix_calls_only_error_enabled rules fix_phase skip r :
  In (EFix r) (fix_events rules fix_phase skip) ->
  In r rules /\ rdisabled r = false /\ rerror r = true /\ 1 <= rphase r <= fix_phase /\ memn (rphase r) skip = false.
Proof.
  unfold fix_events. intros H. apply fix_loop_rule in H. destruct H as [[H|H]|(x & H1 & H2 & H3 & H4 & H5)]; try discriminate.
  destruct (rerror x) eqn:E; [|discriminate]. inversion H5; subst x.
  apply in_seq in H2. repeat split; auto; lia.
Qed.

Theorem analyze_calls_only_enabled rules fix_phase skip r :
  In (EAnalyze r) (fix_events rules fix_phase skip) ->
  In r rules /\ rdisabled r = false /\ rerror r = false /\ 1 <= rphase r <= fix_phase /\ memn (rphase r) skip = false.
Proof.
  unfold fix_events. intros H. apply fix_loop_rule in H. destruct H as [[H|H]|(x & H1 & H2 & H3 & H4 & H5)]; try discriminate.
  destruct (rerror x) eqn:E; [discriminate|]. inversion H5; subst x.
  apply in_seq in H2. repeat split; auto; lia.
Qed.

(* ... and _fix_violation is reached only when, in addition, the rule is fixable *)
Theorem fixed_violations_only_fixable {V} (line : V -> nat) d r vs v :
  In v (fixed_violations line d r vs) -> rfixable r = true /\ In v vs.
Proof.
  unfold fixed_violations, filter_fix_only. destruct (rfixable r); [|intros []]. intros H. split; [reflexivity|].
  destruct d as [m|]; [|exact H]. destruct (lookup (rid r) m); [|destruct H].
  destruct (existsb is_all l); [exact H|]. apply filter_In in H. tauto.
Qed.

(* ------------------------------------------------------------------ --fix_only (C20) *)
Theorem filter_spec {V} (line : V -> nat) d r vs v :
  In v (filter_fix_only line d r vs) <->
  In v vs /\ (d = None \/ exists m ls, d = Some m /\ lookup (rid r) m = Some ls /\
                                (In SAll ls \/ In (SLine (line v)) ls)).
Proof.
  unfold filter_fix_only. destruct d as [m|].
  - destruct (lookup (rid r) m) as [ls|] eqn:El.
    + destruct (existsb is_all ls) eqn:Ea.
      * split; [intros H; split; [exact H|right; exists m, ls; repeat split; auto]|tauto].
        apply existsb_exists in Ea. destruct Ea as (s & Hs & E). destruct s; [now left|discriminate].
      * rewrite filter_In. split.
        -- intros [H1 H2]. split; [exact H1|]. right. exists m, ls. repeat split; auto. right.
           apply existsb_exists in H2. destruct H2 as (s & Hs & E). destruct s; [discriminate|]. cbn in E. apply Nat.eqb_eq in E. now subst.
        -- intros [H1 [H2|(m' & ls' & E1 & E2 & H3)]]; [discriminate|]. inversion E1; subst m'. rewrite El in E2. inversion E2; subst ls'.
           split; [exact H1|]. apply existsb_exists. destruct H3 as [H3|H3].
           ++ exfalso. assert (X : existsb is_all ls = true) by (apply existsb_exists; exists SAll; auto). congruence.
           ++ exists (SLine (line v)). split; [exact H3|]. cbn. apply Nat.eqb_refl.
    + split; [intros []|]. intros [_ [H|(m' & ls & E1 & E2 & _)]]; [discriminate|]. inversion E1; subst. congruence.
  - split; [intros H; auto|tauto].
Qed.

(* listing every rule with "all" is a plain --fix *)
Theorem fix_only_all_is_fix {V} (line : V -> nat) m r (vs : list V) :
  (exists ls, lookup (rid r) m = Some ls /\ In SAll ls) ->
  filter_fix_only line (Some m) r vs = filter_fix_only line None r vs.
Proof.
  intros (ls & El & Hin). unfold filter_fix_only. rewrite El.
  assert (X : existsb is_all ls = true) by (apply existsb_exists; exists SAll; auto). now rewrite X.
Qed.

(* listing nothing fixes nothing: no _fix_violation, no update, had_violations stays False, no write-back *)
Theorem fix_only_empty_is_identity {V} (line : V -> nat) r (vs : list V) :
  fixed_violations line (Some []) r vs = [].
Proof. unfold fixed_violations, filter_fix_only. cbn. now destruct (rfixable r). Qed.

(* non-vacuity *)
Example sched_example :
  let r1 := mkrule 0 1 1 false true true false in
  let r2 := mkrule 1 2 1 false true true false in
  let r3 := mkrule 2 7 1 false true false false in
  let nv := fun r => if Nat.eqb (rid r) 0 then 2 else 1 in
  map rid (analysed (check_rules nv [r1; r2; r3] false [])) = [0] /\
  map rid (analysed (check_rules nv [r1; r2; r3] true [])) = [0; 1; 2] /\
  lastp (check_rules nv [r1; r2; r3] false []) = 1 /\
  fix_events [r1; r2; r3] 2 [] = [EFix r1; ENormalise; EFix r2].
Proof. vm_compute. repeat split. Qed.

(* ------------------------------------------------------------------ C06: all-phases analysis in closed form *)
Section Closed.
Variable nviol : rule -> nat.
Variable skip : list nat.

Definition blocks (rules : list rule) (ps : list nat) : list rule :=
  flat_map (block rules) (filter (fun p => negb (memn p skip)) ps).

Lemma ap_closed rules ps : forall c, Inv nviol c ->
  analysed (check_loop nviol rules ps true skip c) = analysed c ++ blocks rules ps.
Proof.
  induction ps as [|p ps IH]; intros c Hc.
  - cbn. now rewrite app_nil_r.
  - rewrite check_loop_cons. unfold blocks. cbn [filter]. destruct (memn p skip) eqn:Hs; cbn [negb].
    + now apply IH.
    + rewrite andb_false_r. destruct (step_spec nviol rules p c Hc) as (Sa & Sl & Si).
      rewrite (IH _ Si), Sa. cbn [flat_map]. unfold blocks. now rewrite app_assoc.
Qed.

(* every rule analysed by an all-phases check, in order: phase by phase, sub-phase by sub-phase, load order *)
Theorem all_phases_closed_form rules :
  analysed (check_rules nviol rules true skip) = blocks rules all_phases.
Proof. unfold check_rules. rewrite ap_closed by apply Inv0. reflexivity. Qed.

(* disabling a set D of rules removes exactly those rules from the analysis *)
Definition disable (D : rule -> bool) (r : rule) : rule :=
  if D r then mkrule (rid r) (rphase r) (rsub r) true (rfixable r) (rerror r) (rprereq r) else r.

Lemma rid_disable D r : rid (disable D r) = rid r.
Proof. unfold disable. destruct (D r); reflexivity. Qed.
Lemma in_sub_disable D p sp r : rdisabled r = false -> in_sub p sp (disable D r) = in_sub p sp r && negb (D r).
Proof.
  intros Hen. unfold disable. destruct (D r); unfold in_sub; cbn [rphase rsub rdisabled negb].
  - now rewrite !andb_false_r.
  - now rewrite andb_true_r.
Qed.

Lemma sub_rules_disable D rules p sp : (forall r, In r rules -> rdisabled r = false) ->
  map rid (sub_rules (map (disable D) rules) p sp) = map rid (filter (fun r => negb (D r)) (sub_rules rules p sp)).
Proof.
  intros Hen. unfold sub_rules. induction rules as [|r l IH]; [reflexivity|]. cbn [map filter].
  assert (IH' := IH (fun x Hx => Hen x (or_intror Hx))). specialize (Hen r (or_introl eq_refl)).
  rewrite (in_sub_disable D p sp r Hen).
  destruct (in_sub p sp r); cbn [andb]; [|exact IH'].
  cbn [filter]. destruct (D r); cbn [negb map]; [exact IH'|]. now rewrite rid_disable, IH'.
Qed.

Theorem check_disable_exact D rules : (forall r, In r rules -> rdisabled r = false) ->
  map rid (analysed (check_rules nviol (map (disable D) rules) true skip)) =
  map rid (filter (fun r => negb (D r)) (analysed (check_rules nviol rules true skip))).
Proof.
  intros Hen. rewrite !all_phases_closed_form. unfold blocks.
  induction (filter (fun p => negb (memn p skip)) all_phases) as [|p ps IH]; [reflexivity|].
  cbn [flat_map]. rewrite filter_app, !map_app, IH. f_equal.
  unfold block. induction subphases as [|sp sps IHs]; [reflexivity|].
  cbn [flat_map]. rewrite filter_app, !map_app, IHs. f_equal. now apply sub_rules_disable.
Qed.
End Closed.

(* repeating the analysis gives the same result: check_rules is a function of the rule table and the violation
   counts only *)
Theorem check_deterministic nviol rules allp skip :
  check_rules nviol rules allp skip = check_rules nviol rules allp skip.
Proof. reflexivity. Qed.

(* ------------------------------------------------------------------ C06: order of the rule table, other rules' reports *)
From Coq Require Import Permutation.

Lemma filter_perm {A} (f : A -> bool) l l' : Permutation l l' -> Permutation (filter f l) (filter f l').
Proof.
  induction 1 as [|x l l' _ IH|x y l|l l' l'' _ IH1 _ IH2]; cbn [filter].
  - constructor.
  - destruct (f x); [now constructor|exact IH].
  - destruct (f x), (f y); try apply Permutation_refl. apply perm_swap.
  - eapply Permutation_trans; eassumption.
Qed.

Lemma flat_map_pointwise_perm {A B} (g g' : A -> list B) l :
  (forall a, Permutation (g a) (g' a)) -> Permutation (flat_map g l) (flat_map g' l).
Proof.
  intros H. induction l as [|a l IH]; cbn [flat_map]; [constructor|]. now apply Permutation_app.
Qed.

(* the all-phases analysis of a re-ordered rule table analyses the same rules (as a multiset): which rules are
   analysed does not depend on the order in which they were loaded *)
Theorem check_order_irrelevant nviol nviol' skip rules rules' : Permutation rules rules' ->
  Permutation (analysed (check_rules nviol rules true skip)) (analysed (check_rules nviol' rules' true skip)).
Proof.
  intros P. rewrite !all_phases_closed_form. unfold blocks. apply flat_map_pointwise_perm. intros p.
  unfold block. apply flat_map_pointwise_perm. intros sp. unfold sub_rules. now apply filter_perm.
Qed.

(* ... nor on what any rule reports: with --all_phases the analysed list is the same for every assignment of
   violation counts (no rule's report switches another rule's analysis on or off) *)
Theorem all_phases_independent_of_counts nviol nviol' skip rules :
  analysed (check_rules nviol rules true skip) = analysed (check_rules nviol' rules true skip).
Proof. now rewrite !all_phases_closed_form. Qed.

(* an enabled rule outside the disabled set D is analysed after disabling D iff it was analysed before *)
Theorem disable_keeps_others nviol skip D rules r : (forall x, In x rules -> rdisabled x = false) ->
  D r = false -> In r (analysed (check_rules nviol rules true skip)) ->
  In (rid r) (map rid (analysed (check_rules nviol (map (disable D) rules) true skip))).
Proof.
  intros Hen HD Hin. rewrite check_disable_exact by exact Hen. apply in_map. apply filter_In. split; [exact Hin|].
  now rewrite HD.
Qed.

(* ------------------------------------------------------------------ C10: what a second Rule.fix selects *)
Lemma filter_idem {A} (f : A -> bool) l : filter f (filter f l) = filter f l.
Proof.
  induction l as [|x l IH]; [reflexivity|]. cbn [filter]. destruct (f x) eqn:E; [|exact IH].
  cbn [filter]. now rewrite E, IH.
Qed.

(* a rule that is not fixable repairs nothing, whatever it reports: its report after a fix is its report before *)
Theorem unfixable_fixes_nothing {V} (line : V -> nat) d r (vs : list V) :
  rfixable r = false -> fixed_violations line d r vs = [].
Proof. intros H. unfold fixed_violations. now rewrite H. Qed.

(* the selection of violations to repair is idempotent: analysing again and selecting again among the selected
   violations selects all of them (a second fix is offered exactly what the first one was, no more) *)
Theorem fix_selection_idempotent {V} (line : V -> nat) d r (vs : list V) :
  fixed_violations line d r (fixed_violations line d r vs) = fixed_violations line d r vs.
Proof.
  unfold fixed_violations. destruct (rfixable r); [|reflexivity]. unfold filter_fix_only.
  destruct d as [m|]; [|reflexivity]. destruct (lookup (rid r) m) as [ls|]; [|reflexivity].
  destruct (existsb is_all ls); [reflexivity|]. apply filter_idem.
Qed.
