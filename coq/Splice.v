From Coq Require Import List Arith Lia.
Import ListNotations.

Section S.
Context {A : Type}.

Record edit := { e_start : nat; e_stop : nat; e_new : list A }.

(* python:  l[s:e] = new   (e < s assigns to the empty slice at s) *)
Definition apply1 (l : list A) (e : edit) : list A :=
  firstn (e_start e) l ++ e_new e ++ skipn (Nat.max (e_start e) (e_stop e)) l.

(* vhdlFile.update: for oUpdate in lUpdates[::-1]: splice *)
Definition update (l : list A) (es : list edit) : list A := fold_left apply1 (rev es) l.

Definition slice (l : list A) (i j : nat) : list A := firstn (j - i) (skipn i l).

(* closed form: walk the edits left to right; [l] is the suffix that starts at absolute index [pos] *)
Fixpoint splice (pos : nat) (l : list A) (es : list edit) : list A :=
  match es with
  | [] => l
  | e :: r => firstn (e_start e - pos) l ++ e_new e ++ splice (e_stop e) (skipn (e_stop e - pos) l) r
  end.

Fixpoint wf (pos len : nat) (es : list edit) : Prop :=
  match es with
  | [] => pos <= len
  | e :: r => pos <= e_start e /\ e_start e <= e_stop e /\ wf (e_stop e) len r
  end.
End S.
Arguments edit : clear implicits.
