(* C18: an update whose inserted tokens are distinct objects, different from every token it keeps, never makes an
   object stand at two positions of the list (the index and the regions of interest name positions by object). *)
From Coq Require Import List Arith Lia Permutation.
Import ListNotations.
Require Import Splice SpliceProofs.

Section U.
Context {A : Type}.

(* what an update keeps of the old list: everything outside the replaced slices *)
Fixpoint kept_abs (l : list A) (pos : nat) (es : list (edit A)) : list A :=
  match es with
  | [] => skipn pos l
  | e :: r => slice l pos (e_start e) ++ kept_abs l (e_stop e) r
  end.
Definition inserted (es : list (edit A)) : list A := concat (map (@e_new A) es).

Lemma splice_abs_perm (es : list (edit A)) : forall l pos,
  Permutation (splice_abs l pos es) (kept_abs l pos es ++ inserted es).
Proof.
  induction es as [|e r IH]; intros l pos; cbn [splice_abs kept_abs inserted map concat].
  - rewrite app_nil_r. apply Permutation_refl.
  - rewrite <- app_assoc. apply Permutation_app_head.
    eapply Permutation_trans; [apply Permutation_app_head; apply IH|].
    fold (inserted r). rewrite !app_assoc. apply Permutation_app_tail. apply Permutation_app_comm.
Qed.

Theorem update_is_kept_plus_inserted (es : list (edit A)) l : wf 0 (length l) es ->
  Permutation (update l es) (kept_abs l 0 es ++ inserted es).
Proof.
  intros H. rewrite (update_sorted_disjoint es 0 l H). cbn [firstn app].
  rewrite splice_is_abs by exact H. apply splice_abs_perm.
Qed.

Theorem update_keeps_objects_distinct {B} (f : A -> B) (es : list (edit A)) l : wf 0 (length l) es ->
  NoDup (map f (kept_abs l 0 es ++ inserted es)) -> NoDup (map f (update l es)).
Proof.
  intros H N. eapply Permutation_NoDup; [|exact N].
  apply Permutation_map. apply Permutation_sym. now apply update_is_kept_plus_inserted.
Qed.
End U.

(* non-vacuity, and the way the seeded change C09f and six rules of the pinned tree lose it: one new object
   inserted by two edits *)
Example distinct_kept : NoDup (map (fun x : nat => x) (update [1; 2; 3; 4] [{| e_start := 1; e_stop := 2; e_new := [7] |}; {| e_start := 3; e_stop := 3; e_new := [8] |}])).
Proof. cbn. repeat constructor; cbn; intuition discriminate. Qed.
Example shared_object_twice : ~ NoDup (map (fun x : nat => x) (update [1; 2; 3; 4] [{| e_start := 1; e_stop := 2; e_new := [7] |}; {| e_start := 3; e_stop := 3; e_new := [7] |}])).
Proof. cbn. intros H. inversion H as [|? ? _ H1]; subst. inversion H1 as [|? ? H2 _]; subst. apply H2. cbn. auto. Qed.
