From Coq Require Import List Bool Arith Lia.
Import ListNotations.
Require Import WriteBack.

Section P.
Variable content : Type.
Variable empty : content.
Notation fs := (fs content).
Notation file := (file content).

Ltac cases sched :=
  repeat match goal with
  | |- context [match sched ?x with _ => _ end] => destruct (sched x); cbn
  | |- context [match ?t with Some _ => _ | None => _ end] => destruct t; cbn
  end.

Lemma do_remove_target sched (s : fs) r : target _ (fst (do_remove content sched s r)) = target _ s.
Proof. unfold do_remove. destruct (sched SRemove); reflexivity. Qed.
Lemma fail_in_try_target sched (s : fs) o : target _ (fst (fail_in_try content sched s o)) = target _ s.
Proof. unfold fail_in_try. destruct o; try reflexivity; apply do_remove_target. Qed.
Lemma do_remove_bak sched (s : fs) r : bak _ (fst (do_remove content sched s r)) = bak _ s.
Proof. unfold do_remove. destruct (sched SRemove); reflexivity. Qed.
Lemma fail_in_try_bak sched (s : fs) o : bak _ (fst (fail_in_try content sched s o)) = bak _ s.
Proof. unfold fail_in_try. destruct o; try reflexivity; apply do_remove_bak. Qed.

(* all-or-nothing, for every schedule of crashes and failing calls, every stale tmp file, every umask *)
Theorem writeback_atomic sched defmode (s : fs) fixed orig : target _ s = Some orig ->
  let s' := fst (write_vhdl_file content empty sched defmode s fixed) in
  target _ s' = Some orig \/ target _ s' = Some (mkfile _ fixed (mode _ orig)).
Proof.
  intros Ht. cbv zeta. unfold write_vhdl_file. rewrite Ht.
  destruct (sched SStat); try (left; exact Ht).
  destruct (sched SOpen); try (left; rewrite ?fail_in_try_target; exact Ht).
  destruct (sched SWrite); try (left; rewrite ?fail_in_try_target; exact Ht).
  destruct (sched SClose); try (left; rewrite ?fail_in_try_target; exact Ht).
  destruct (sched SChmod); try (left; rewrite ?fail_in_try_target; exact Ht).
  destruct (sched SReplace); try (left; rewrite ?fail_in_try_target; exact Ht).
  right. rewrite do_remove_target. reflexivity.
Qed.

(* with no fault at all the file holds the fixed content with its original mode and the tmp file is gone *)
Theorem writeback_success defmode (s : fs) fixed orig : target _ s = Some orig ->
  write_vhdl_file content empty (fun _ => Ok _) defmode s fixed =
  (mkfs _ (Some (mkfile _ fixed (mode _ orig))) None (bak _ s), Returned).
Proof. intros Ht. unfold write_vhdl_file. rewrite Ht. reflexivity. Qed.

(* the temporary file is removed whenever the process survives and os.remove itself works *)
Theorem tmp_removed sched defmode (s : fs) fixed :
  sched SStat = Ok _ -> sched SRemove = Ok _ -> target _ s <> None ->
  let '(s', r) := write_vhdl_file content empty sched defmode s fixed in
  r <> Killed -> tmp _ s' = None.
Proof.
  intros Hs Hr Ht. unfold write_vhdl_file. destruct (target _ s) as [orig|]; [|congruence]. rewrite Hs.
  unfold fail_in_try, do_remove. rewrite Hr.
  destruct (sched SOpen); cbn; try congruence; try reflexivity;
  destruct (sched SWrite); cbn; try congruence; try reflexivity;
  destruct (sched SClose); cbn; try congruence; try reflexivity;
  destruct (sched SChmod); cbn; try congruence; try reflexivity;
  destruct (sched SReplace); cbn; try congruence; try reflexivity.
Qed.

Theorem writeback_keeps_backup sched defmode (s : fs) fixed :
  bak _ (fst (write_vhdl_file content empty sched defmode s fixed)) = bak _ s.
Proof.
  unfold write_vhdl_file. destruct (target _ s); [|reflexivity].
  destruct (sched SStat); try reflexivity.
  destruct (sched SOpen); rewrite ?fail_in_try_bak; try reflexivity.
  destruct (sched SWrite); rewrite ?fail_in_try_bak; try reflexivity.
  destruct (sched SClose); rewrite ?fail_in_try_bak; try reflexivity.
  destruct (sched SChmod); rewrite ?fail_in_try_bak; try reflexivity.
  destruct (sched SReplace); rewrite ?fail_in_try_bak, ?do_remove_bak; reflexivity.
Qed.

(* --backup: a completed copy is the original, and nothing that follows touches it *)
Theorem backup_faithful sched defmode (s : fs) fixed orig : target _ s = Some orig ->
  let s1 := fst (create_backup content defmode s (BOk _)) in
  bak _ s1 = Some orig /\ target _ s1 = Some orig /\
  bak _ (fst (write_vhdl_file content empty sched defmode s1 fixed)) = Some orig.
Proof.
  intros Ht. cbv zeta. unfold create_backup. rewrite Ht. cbn [fst].
  split; [reflexivity|]. split; [reflexivity|]. rewrite writeback_keeps_backup. reflexivity.
Qed.

(* a file that fails to parse or configure is never touched *)
Theorem reject_untouched sched defmode (s : fs) backup fixed :
  apply_rules_fs content empty sched defmode s (ParseError) backup fixed = (s, Returned) /\
  apply_rules_fs content empty sched defmode s (ConfigError) backup fixed = (s, Returned).
Proof. split; reflexivity. Qed.

(* the whole per-file path: whatever happens, the target is the original or the complete fixed file *)
Theorem apply_rules_atomic sched defmode (s : fs) p backup fixed orig : target _ s = Some orig ->
  let s' := fst (apply_rules_fs content empty sched defmode s p backup fixed) in
  (target _ s' = Some orig \/ target _ s' = Some (mkfile _ fixed (mode _ orig))) /\
  (p <> Fixed true -> target _ s' = Some orig).
Proof.
  intros Ht. cbv zeta.
  assert (B : forall o, target _ (fst (create_backup content defmode s o)) = Some orig).
  { intros o. unfold create_backup. rewrite Ht. destruct o; cbn; (exact Ht || reflexivity). }
  destruct p as [| | |h]; cbn; try (split; [left|intros _]; exact Ht).
  - destruct backup as [o|]; [|split; [left|intros _]; exact Ht].
    specialize (B o). destruct (create_backup content defmode s o) as [s1 r1]. cbn in B.
    destruct r1; cbn; split; auto.
  - destruct backup as [o|].
    + specialize (B o). destruct (create_backup content defmode s o) as [s1 r1]. cbn in B.
      destruct r1; cbn; try (split; [left|intros _]; exact B).
      destruct h; [|split; [left|intros _]; exact B].
      split; [apply writeback_atomic; exact B|congruence].
    + destruct h; [|split; [left|intros _]; exact Ht].
      split; [apply writeback_atomic; exact Ht|congruence].
Qed.
End P.

Example writeback_example :
  let s := mkfs nat (Some (mkfile _ 1 416)) (Some (mkfile _ 9 511)) None in
  (* disk fills while writing: the target is untouched, the tmp file is removed, the error propagates *)
  write_vhdl_file nat 0 (fun st => match st with SWrite => OsErrMid _ 5 | _ => Ok _ end) 420 s 2
    = (mkfs _ (Some (mkfile _ 1 416)) None None, RaisedOut) /\
  (* killed between chmod and replace: target untouched, complete tmp left behind *)
  write_vhdl_file nat 0 (fun st => match st with SReplace => Crash _ | _ => Ok _ end) 420 s 2
    = (mkfs _ (Some (mkfile _ 1 416)) (Some (mkfile _ 2 416)) None, Killed).
Proof. vm_compute. split; reflexivity. Qed.
