(* Abstract token lists and the decidable per-edit obligations of C01 / C02 / C03 / C07 / C08, evaluated by the
   extracted trace checker on every observed rule application. *)
From Coq Require Import List NArith Bool Arith Lia.
Import ListNotations.
Require Import Tokenizer Splice.

Inductive rkind := RCode | RWs | RCr | RBlank | RComment | RDText | RPrep | RIgnore.
Definition rkind_eqb (a b : rkind) : bool :=
  match a, b with
  | RCode, RCode | RWs, RWs | RCr, RCr | RBlank, RBlank | RComment, RComment | RDText, RDText
  | RPrep, RPrep | RIgnore, RIgnore => true
  | _, _ => false
  end.

(* a token as the observer sees it: identity of the Python object, role (class), kind, text *)
Record atok := mkatok { a_id : N; a_role : N; a_kind : rkind; a_val : str }.

Definition is_code (t : atok) : bool := rkind_eqb (a_kind t) RCode.
Definition is_layout (t : atok) : bool :=
  match a_kind t with RWs | RCr | RBlank => true | _ => false end.
Definition is_cr (t : atok) : bool := rkind_eqb (a_kind t) RCr.
(* comments, delimited comment parts, pragmas, preprocessor lines, text inside vhdl_comp_off regions *)
Definition is_verbatim (t : atok) : bool :=
  match a_kind t with RComment | RDText | RPrep | RIgnore => true | _ => false end.

(* character literals, string literals and extended identifiers compare exactly; everything else folds case.
   [always_fold r]: roles whose text is a literal's digit string (bit string value), folded although quoted *)
Definition exact_value (v : str) : bool :=
  match v with c :: _ => N.eqb c 39 || N.eqb c 34 || N.eqb c 92 | [] => false end.
Section Roles.
Variable always_fold : N -> bool.
Variable optional : N -> bool.     (* roles of redundant elements structural rules may add or remove *)

Definition fold (t : atok) : str :=
  if exact_value (a_val t) && negb (always_fold (a_role t)) then a_val t else s_lower (a_val t).

(* C01: the sequence of essential code tokens *)
Definition essential (l : list atok) : list str :=
  map fold (filter (fun t => is_code t && negb (optional (a_role t))) l).
Definition code_seq (l : list atok) : list str := map fold (filter is_code l).

Definition strs_eqb (a b : list str) : bool := if list_eq_dec (list_eq_dec N.eq_dec) a b then true else false.
Definition c01_edit_ok (old new : list atok) : bool := strs_eqb (essential old) (essential new).
Definition c01_edit_strict (old new : list atok) : bool := strs_eqb (code_seq old) (code_seq new).

(* one balanced pair of parentheses around a condition: the new essential sequence is the old one with "(" and,
   later, ")" inserted (or the other way round) *)
Fixpoint ins_seq (ins : list str) (a b : list str) : bool :=   (* b = a with the strings of ins inserted, in order *)
  match b with
  | [] => match a, ins with [], [] => true | _, _ => false end
  | y :: b' =>
      (match a with x :: a' => str_eqb x y && ins_seq ins a' b' | [] => false end)
      || (match ins with i :: ins' => str_eqb i y && ins_seq ins' a b' | [] => false end)
  end.
Definition LP : str := [40%N].
Definition RP : str := [41%N].
Definition c01_paren_ok (old new : list atok) : bool :=
  ins_seq [LP; RP] (essential old) (essential new) || ins_seq [LP; RP] (essential new) (essential old).
Definition is_paren (s : str) : bool := str_eqb s LP || str_eqb s RP.
Definition essential_np (l : list atok) : list str := filter (fun s => negb (is_paren s)) (essential l).
End Roles.

(* C02: comment text modulo the documented normalisations: runs of spaces / tabs collapse to one space and the
   run directly after a leading "--" (with optional "!" etc. kept) is dropped *)
Definition is_blank_char (c : chr) : bool := N.eqb c 32 || N.eqb c 9.
Fixpoint collapse (s : str) (in_run : bool) : str :=
  match s with
  | [] => []
  | c :: r => if is_blank_char c then (if in_run then collapse r true else 32%N :: collapse r true)
              else c :: collapse r false
  end.
Fixpoint drop_blanks (s : str) : str :=
  match s with c :: r => if is_blank_char c then drop_blanks r else s | [] => [] end.
(* the comment leader: "--" plus the pattern characters comment_100 may be configured with ("--!", "--|", ...) *)
Definition is_leader_char (c : chr) : bool := N.eqb c 33 || N.eqb c 124 || N.eqb c 61 || N.eqb c 43 || N.eqb c 35.
Fixpoint leader (s : str) : str * str :=
  match s with
  | c :: r => if is_leader_char c then let '(a, b) := leader r in (c :: a, b) else ([], s)
  | [] => ([], [])
  end.
Definition cnorm (v : str) : str :=
  match v with
  | 45%N :: 45%N :: r => let '(p, rest) := leader (drop_blanks r) in 45%N :: 45%N :: p ++ collapse (drop_blanks rest) false
  | _ => collapse v false
  end.
Definition comments (l : list atok) : list str := map (fun t => cnorm (a_val t)) (filter is_verbatim l).
Definition c02_edit_ok (old new : list atok) : bool := strs_eqb (comments old) (comments new).
(* comment removers: the new comments are a subsequence of the old *)
Fixpoint subseq (a b : list str) : bool :=   (* a is a subsequence of b *)
  match a, b with
  | [], _ => true
  | _ :: _, [] => false
  | x :: a', y :: b' => if str_eqb x y then subseq a' b' else subseq a b'
  end.
Definition c02_edit_removes (old new : list atok) : bool := subseq (comments new) (comments old).

(* C03, layout classes (whitespace, blank line, indent, alignment): every code token keeps identity, role and text;
   comments keep role and text modulo blanks (a rule may re-create the comment object) *)
Definition strip_blanks (s : str) : str := filter (fun c => negb (is_blank_char c)) s.
Definition nonlayout_sig (l : list atok) : list (N * N * str) :=
  map (fun t => ((if is_code t then a_id t else 0%N), a_role t, if is_code t then a_val t else strip_blanks (a_val t))) (filter (fun t => negb (is_layout t)) l).
Definition trip_eqb (x y : N * N * str) : bool :=
  let '(a1, b1, c1) := x in let '(a2, b2, c2) := y in N.eqb a1 a2 && N.eqb b1 b2 && str_eqb c1 c2.
Fixpoint sig_eqb (a b : list (N * N * str)) : bool :=
  match a, b with
  | [], [] => true
  | x :: a', y :: b' => trip_eqb x y && sig_eqb a' b'
  | _, _ => false
  end.
Definition c03_layout_ok (old new : list atok) : bool := sig_eqb (nonlayout_sig old) (nonlayout_sig new).

(* C03, case class: same tokens one for one; each text equal up to letter case and of equal length; literals,
   extended identifiers and everything that is not code untouched *)
Section Case.
Variable always_fold : N -> bool.
Definition case_tok_ok (a b : atok) : bool :=
  N.eqb (a_id a) (a_id b) && N.eqb (a_role a) (a_role b) && rkind_eqb (a_kind a) (a_kind b) &&
  Nat.eqb (length (a_val a)) (length (a_val b)) &&
  (if is_code a then str_eqb (fold always_fold a) (fold always_fold b) else str_eqb (a_val a) (a_val b)).
Fixpoint c03_case_ok (old new : list atok) : bool :=
  match old, new with
  | [], [] => true
  | a :: r, b :: r' => case_tok_ok a b && c03_case_ok r r'
  | _, _ => false
  end.
End Case.

(* C03, rules that may not change anything: naming, length, unfixable, fixable: false, disabled, warning *)
Definition same_tok (a b : atok) : bool :=
  N.eqb (a_id a) (a_id b) && N.eqb (a_role a) (a_role b) && str_eqb (a_val a) (a_val b).
Fixpoint c03_identity_ok (old new : list atok) : bool :=
  match old, new with
  | [], [] => true
  | a :: r, b :: r' => same_tok a b && c03_identity_ok r r'
  | _, _ => false
  end.

(* lines of a token list; C07: the lines a rule application changed *)
Fixpoint lines_of (l : list atok) (cur : str) : list str :=
  match l with
  | [] => match cur with [] => [] | _ => [cur] end
  | t :: r => if is_cr t then cur :: lines_of r [] else lines_of r (cur ++ a_val t)
  end.
Fixpoint diff_lines (a b : list str) (n : nat) : list nat :=
  match a, b with
  | x :: a', y :: b' => if str_eqb x y then diff_lines a' b' (S n) else n :: diff_lines a' b' (S n)
  | [], [] => []
  | _, _ => [n]     (* different number of lines: reported as a change at the first missing line *)
  end.
Definition changed_lines (before after : list atok) : list nat := diff_lines (lines_of before []) (lines_of after []) 1.
Definition same_line_count (before after : list atok) : bool :=
  Nat.eqb (length (lines_of before [])) (length (lines_of after [])).

(* whole-list invariants (C02 / C08) *)
Definition is_line_comment (t : atok) : bool :=
  rkind_eqb (a_kind t) RComment && match a_val t with 45%N :: 45%N :: _ => true | _ => false end.
Fixpoint comment_terminated (l : list atok) : bool :=
  match l with
  | [] => true
  | t :: r =>
      (if is_line_comment t then
         match r with
         | n :: r' => is_cr n || (rkind_eqb (a_kind n) RWs && match r' with m :: _ => is_cr m | [] => true end)
         | [] => true
         end
       else true) && comment_terminated r
  end.
Fixpoint no_adjacent_ws (l : list atok) : bool :=
  match l with
  | a :: ((b :: _) as r) => negb (rkind_eqb (a_kind a) RWs && rkind_eqb (a_kind b) RWs) && no_adjacent_ws r
  | _ => true
  end.

(* edits that stay inside the list and keep its length (every case and value-only rule) *)
Definition lenpres_b {A} (len : nat) (es : list (edit A)) : bool :=
  forallb (fun e => Nat.leb (e_start e) (e_stop e) && Nat.leb (e_stop e) len && Nat.eqb (length (e_new e)) (e_stop e - e_start e)) es.

(* boolean version of Splice.wf: edits sorted, pairwise disjoint, inside the list *)
Fixpoint wf_b {A} (pos len : nat) (es : list (edit A)) : bool :=
  match es with
  | [] => Nat.leb pos len
  | e :: r => Nat.leb pos (e_start e) && Nat.leb (e_start e) (e_stop e) && wf_b (e_stop e) len r
  end.
