From Coq Require Import List NArith Bool Arith Lia.
Import ListNotations.
Require Import Tokenizer TokenizerProofs Lines.

Lemma str_eqb_eq a b : str_eqb a b = true -> a = b.
Proof. unfold str_eqb. destruct (list_eq_dec N.eq_dec a b); [auto|discriminate]. Qed.

Lemma starts2_dash_not_space s : starts2 DASH DASH s = true -> s_isspace s = false.
Proof.
  destruct s as [|x [|y r]]; cbn; try discriminate.
  intros H. apply andb_prop in H. destruct H as [H _]. apply N.eqb_eq in H. subst x.
  unfold s_isspace. cbn. reflexivity.
Qed.

Definition texts (l : list tok) : str := concat (map tv l).

Lemma texts_app a b : texts (a ++ b) = texts a ++ texts b.
Proof. unfold texts. now rewrite map_app, concat_app. Qed.
Lemma texts_cons t l : texts (t :: l) = tv t ++ texts l.
Proof. reflexivity. Qed.
Lemma texts_rev_cons t l : texts (rev (t :: l)) = texts (rev l) ++ tv t.
Proof. cbn [rev]. rewrite texts_app. unfold texts at 2. cbn. now rewrite app_nil_r. Qed.

Lemma ends_star_split s : ends_star s = true -> s = removelast s ++ [42%N].
Proof.
  unfold ends_star. destruct (rev s) as [|c r] eqn:E; [discriminate|].
  intros H. apply N.eqb_eq in H. subst c.
  assert (s = rev r ++ [42%N]) as -> by (rewrite <- (rev_involutive s), E; reflexivity).
  now rewrite removelast_last.
Qed.

Definition nocr (l : list tok) : Prop := Forall (fun t => is_cr t = false) l.

Lemma nocr_app a b : nocr a -> nocr b -> nocr (a ++ b).
Proof. apply Forall_app_intro || (intros; apply Forall_app; split; assumption). Qed.

Lemma nocr_rev l : nocr l -> nocr (rev l).
Proof. unfold nocr. intros H. apply Forall_rev. exact H. Qed.

Lemma nocr_removelast l : nocr l -> nocr (removelast l).
Proof.
  unfold nocr. induction l as [|a l IH]; cbn; intros H; [constructor|].
  destruct l as [|b l]; [constructor|].
  inversion H; subst. constructor; [assumption|]. apply IH. assumption.
Qed.

Lemma nocr_last l d : nocr l -> is_cr d = false -> is_cr (last l d) = false.
Proof.
  unfold nocr. induction l as [|a l IH]; cbn; intros H Hd; [exact Hd|].
  inversion H; subst. destruct l; [assumption|]. apply IH; assumption.
Qed.

(* ---- comment.classify keeps the text of the line and creates no carriage return ---- *)
Lemma cc_spec rest : forall inside done,
  texts (fst (cc inside done rest)) = texts (rev done) ++ texts rest.
Proof.
  induction rest as [|t r IH]; intros inside done; cbn [cc].
  - cbn [fst]. change (texts []) with (@nil chr). now rewrite app_nil_r.
  - set (t1 := if inside then mk KDText (tv t) else t).
    assert (Ht1 : tv t1 = tv t) by (unfold t1; destruct inside; reflexivity).
    destruct (negb inside && starts2 DASH DASH (tv t1)) eqn:Hc.
    + cbn [fst]. rewrite texts_app, texts_cons. cbn [tv]. rewrite texts_cons, <- Ht1.
      f_equal. rewrite <- app_assoc. f_equal.
      apply andb_prop in Hc. destruct Hc as [_ Hd].
      destruct r as [|r0 rr].
      * cbn [last]. rewrite (starts2_dash_not_space _ Hd). reflexivity.
      * destruct (s_isspace (tv (last (r0 :: rr) t1))).
        -- change (concat (map tv (removelast (r0 :: rr)))) with (texts (removelast (r0 :: rr))).
           rewrite <- texts_app. f_equal.
           symmetry. apply app_removelast_last. discriminate.
        -- unfold texts at 1. cbn [map concat]. now rewrite app_nil_r.
    + set (opening := negb inside && str_eqb (tv t1) s_open).
      set (t2 := if opening then mk KDBegin (tv t1) else t1).
      assert (Ht2 : tv t2 = tv t) by (unfold t2; destruct opening; [cbn|]; exact Ht1).
      destruct ((inside || opening) && str_eqb (tv t2) s_close) eqn:Hcl.
      * rewrite IH, texts_rev_cons, texts_cons. cbn [tv]. rewrite Ht2. now rewrite <- app_assoc.
      * destruct done as [|p d].
        -- rewrite IH, texts_rev_cons, texts_cons, Ht2. now rewrite <- app_assoc.
        -- destruct ((inside || opening) && str_eqb (tv t2) s_slash && ends_star (tv p)) eqn:Hs.
           ++ rewrite IH. rewrite !texts_rev_cons, texts_cons. cbn [tv].
              apply andb_prop in Hs. destruct Hs as [Hs He]. apply andb_prop in Hs. destruct Hs as [_ Hs].
              apply str_eqb_eq in Hs. rewrite Ht2 in Hs. rewrite Hs.
              rewrite (ends_star_split _ He) at 2.
              unfold s_close, s_slash. rewrite <- !app_assoc. reflexivity.
           ++ rewrite IH, !texts_rev_cons, texts_cons, Ht2. now rewrite <- !app_assoc.
Qed.

Lemma cc_nocr rest : forall inside done, nocr done -> nocr rest -> nocr (fst (cc inside done rest)).
Proof.
  induction rest as [|t r IH]; intros inside done Hd Hr; cbn [cc].
  - cbn. now apply nocr_rev.
  - inversion Hr as [|? ? Ht Hr']; subst.
    set (t1 := if inside then mk KDText (tv t) else t).
    assert (Hc1 : is_cr t1 = false) by (unfold t1; destruct inside; [reflexivity|exact Ht]).
    destruct (negb inside && starts2 DASH DASH (tv t1)).
    + cbn [fst]. apply nocr_app; [now apply nocr_rev|].
      constructor; [reflexivity|].
      destruct (s_isspace _); [|constructor].
      constructor; [|constructor]. apply nocr_last; assumption.
    + set (opening := negb inside && str_eqb (tv t1) s_open).
      set (t2 := if opening then mk KDBegin (tv t1) else t1).
      assert (Hc2 : is_cr t2 = false) by (unfold t2; destruct opening; [reflexivity|exact Hc1]).
      destruct ((inside || opening) && str_eqb (tv t2) s_close).
      * apply IH; [constructor; [reflexivity|assumption]|assumption].
      * destruct done as [|p d].
        -- apply IH; [constructor; [assumption|constructor]|assumption].
        -- inversion Hd; subst.
           destruct ((inside || opening) && str_eqb (tv t2) s_slash && ends_star (tv p)).
           ++ apply IH; [|assumption]. constructor; [reflexivity|]. constructor; [reflexivity|assumption].
           ++ apply IH; [|assumption]. constructor; [assumption|]. constructor; assumption.
Qed.

(* ---- merge_text_tokens ---- *)
Lemma first_text_bound l : forall i a, first_text l i = Some a -> i <= a < i + length l.
Proof.
  induction l as [|t r IH]; cbn; intros i a H; [discriminate|].
  destruct (is_text t); [inversion H; lia|]. apply IH in H. lia.
Qed.
Lemma last_text_bound l : forall i acc b, last_text l i acc = Some b ->
  (acc = Some b) \/ (i <= b < i + length l).
Proof.
  induction l as [|t r IH]; cbn; intros i acc b H; [now left|].
  apply IH in H. destruct H as [H|H]; [|right; lia].
  destruct (is_text t); [inversion H; right; lia|now left].
Qed.

Lemma split3 {A} (l : list A) a b : a <= S b ->
  l = firstn a l ++ firstn (S b - a) (skipn a l) ++ skipn (S b) l.
Proof.
  intros H. rewrite <- (firstn_skipn a l) at 1. f_equal.
  rewrite <- (firstn_skipn (S b - a) (skipn a l)) at 1. f_equal.
  rewrite skipn_skipn'. f_equal. lia.
Qed.

Lemma merge_text_spec l : texts (merge_text l) = texts l.
Proof.
  unfold merge_text.
  destruct (first_text l 0) as [a|] eqn:Ea; [|reflexivity].
  destruct (last_text l 0 None) as [b|] eqn:Eb; [|reflexivity].
  destruct (Nat.ltb a b) eqn:Hab; [|reflexivity].
  apply Nat.ltb_lt in Hab.
  transitivity (texts (firstn a l ++ firstn (S b - a) (skipn a l) ++ skipn (S b) l)).
  - rewrite !texts_app, texts_cons. reflexivity.
  - now rewrite <- split3 by lia.
Qed.

Lemma nocr_firstn n l : nocr l -> nocr (firstn n l).
Proof. unfold nocr. revert l. induction n; intros l H; cbn; [constructor|].
  destruct l; [constructor|]. inversion H; subst. constructor; auto. Qed.
Lemma nocr_skipn n l : nocr l -> nocr (skipn n l).
Proof. unfold nocr. revert l. induction n; intros l H; cbn; [assumption|].
  destruct l; [constructor|]. inversion H; subst. auto. Qed.

Lemma merge_text_nocr l : nocr l -> nocr (merge_text l).
Proof.
  intros H. unfold merge_text.
  destruct (first_text l 0); [|assumption].
  destruct (last_text l 0 None); [|assumption].
  destruct (Nat.ltb _ _); [|assumption].
  apply nocr_app; [now apply nocr_firstn|].
  constructor; [reflexivity|now apply nocr_skipn].
Qed.

(* ---- one line ---- *)
Lemma map_tv_mk toks : texts (map (fun s => mk (if ws_kind s then KWs else KItem) s) toks) = concat toks.
Proof. unfold texts. rewrite map_map. cbn. now rewrite map_id. Qed.

Lemma map_mk_nocr toks : nocr (map (fun s => mk (if ws_kind s then KWs else KItem) s) toks).
Proof. unfold nocr. apply Forall_forall. intros t Ht. apply in_map_iff in Ht.
  destruct Ht as (s & <- & _). cbn. destruct (ws_kind s); reflexivity. Qed.

Lemma classify_line_spec inside toks :
  texts (fst (classify_line inside toks)) = concat toks /\ nocr (fst (classify_line inside toks)).
Proof.
  unfold classify_line.
  destruct toks as [|s0 ss].
  - cbn. destruct inside; cbn; split; try reflexivity; repeat constructor.
  - set (toks := s0 :: ss).
    set (objs0 := map _ toks).
    destruct (cc inside [] objs0) as [objs2 inside'] eqn:E.
    assert (H2 : texts objs2 = concat toks).
    { change objs2 with (fst (objs2, inside')). rewrite <- E, cc_spec. change (texts (rev [])) with (@nil chr). cbn [app]. apply map_tv_mk. }
    assert (N2 : nocr objs2).
    { change objs2 with (fst (objs2, inside')). rewrite <- E. apply cc_nocr; [constructor|apply map_mk_nocr]. }
    destruct (prep_line toks); cbn [fst].
    + split; [unfold texts; cbn; now rewrite app_nil_r|repeat constructor].
    + split; [now rewrite merge_text_spec|now apply merge_text_nocr].
Qed.

(* ---- splitting on carriage returns ---- *)
Lemma split_cr_line objs : forall cur rest, nocr objs ->
  split_cr (objs ++ CR :: rest) cur = (rev cur ++ objs) :: split_cr rest [].
Proof.
  induction objs as [|t r IH]; intros cur rest H; cbn [app split_cr].
  - cbn. now rewrite app_nil_r.
  - inversion H; subst. match goal with h : is_cr t = false |- _ => rewrite h end.
    rewrite IH by assumption. cbn [rev]. now rewrite <- app_assoc.
Qed.

Section R.
Variable tokenize : str -> option (list str).
Hypothesis tokenize_lossless : forall s r, tokenize s = Some r -> concat r = s.

Lemma read_lines_spec ls : forall inside toks,
  read_lines tokenize inside ls = Some toks -> map line_text (split_cr toks []) = ls.
Proof.
  induction ls as [|l r IH]; intros inside toks H; cbn [read_lines] in H.
  - inversion H. reflexivity.
  - destruct (tokenize l) as [tl|] eqn:Et; [|discriminate].
    pose proof (classify_line_spec inside tl) as [Hx Hn].
    destruct (classify_line inside tl) as [objs inside'].
    destruct (read_lines tokenize inside' r) as [rest|] eqn:Er; [|discriminate].
    inversion H; subst; clear H. cbn [fst] in *.
    rewrite split_cr_line by assumption. cbn [rev app map]. f_equal.
    + unfold line_text. fold (texts objs). rewrite Hx. now apply tokenize_lossless.
    + eapply IH. exact Er.
Qed.

(* emit(parse(x)) = x at the line level *)
Theorem emit_read ls toks : read tokenize ls = Some toks -> get_lines toks = [] :: ls.
Proof. unfold read, get_lines. intros H. f_equal. eapply read_lines_spec. exact H. Qed.

Theorem read_total ls : (forall s, tokenize s <> None) -> read tokenize ls <> None.
Proof.
  intros Ht. unfold read. generalize false. induction ls as [|l r IH]; intros inside; cbn; [discriminate|].
  destruct (tokenize l) eqn:E; [|now apply Ht in E].
  destruct (classify_line inside l0) as [objs inside'].
  specialize (IH inside'). destruct (read_lines tokenize inside' r); [discriminate|congruence].
Qed.
End R.

(* one-for-one, value preserving re-classification leaves the emitted text unchanged *)
Lemma split_cr_reclass l : forall l' cur cur', reclass l l' -> map tv cur = map tv cur' ->
  map line_text (split_cr l cur) = map line_text (split_cr l' cur').
Proof.
  induction l as [|a r IH]; intros l' cur cur' H Hc; inversion H; subst; cbn [split_cr].
  - assert (E : line_text (rev cur) = line_text (rev cur')).
    { unfold line_text. now rewrite !map_rev, Hc. }
    destruct cur, cur'; cbn in Hc; try discriminate; [reflexivity|].
    cbn [map]. now rewrite E.
  - match goal with h : _ /\ _ |- _ => destruct h as [Hv Hk] end.
    rewrite <- Hk. destruct (is_cr a).
    + cbn [map]. f_equal; [unfold line_text; now rewrite !map_rev, Hc|]. apply IH; [assumption|reflexivity].
    + apply IH; [assumption|]. cbn. now rewrite Hv, Hc.
Qed.

Theorem value_preserving_reclass l l' : reclass l l' -> get_lines l' = get_lines l.
Proof. intros H. unfold get_lines. f_equal. symmetry. now apply split_cr_reclass. Qed.

(* The role classifier is not strictly one-for-one: it splits selected names on "." and glues an operator
   symbol to its prefix.  [regroup]: tokens keep value and carriage-return-ness, or a non-empty run without
   carriage returns is replaced by another non-empty run with the same text. *)
Inductive regroup : list tok -> list tok -> Prop :=
| rg_nil : regroup [] []
| rg_same a b l l' : tv a = tv b -> is_cr a = is_cr b -> regroup l l' -> regroup (a :: l) (b :: l')
| rg_run xs ys l l' : xs <> [] -> ys <> [] -> nocr xs -> nocr ys -> texts xs = texts ys ->
    regroup l l' -> regroup (xs ++ l) (ys ++ l').

Lemma split_cr_nocr_prefix xs : forall l cur, nocr xs -> split_cr (xs ++ l) cur = split_cr l (rev xs ++ cur).
Proof.
  induction xs as [|x r IH]; intros l cur H; [reflexivity|].
  inversion H; subst. cbn [app split_cr].
  match goal with h : is_cr x = false |- _ => rewrite h end.
  rewrite IH by assumption. cbn [rev]. now rewrite <- app_assoc.
Qed.

Lemma split_cr_regroup l l' : regroup l l' -> forall cur cur',
  texts (rev cur) = texts (rev cur') -> (cur = [] <-> cur' = []) ->
  map line_text (split_cr l cur) = map line_text (split_cr l' cur').
Proof.
  induction 1 as [|a b l l' Hv Hk Hr IH|xs ys l l' Hx Hy Nx Ny Ht Hr IH]; intros cur cur' Hc He.
  - cbn [split_cr]. destruct cur, cur'; try reflexivity.
    + destruct He as [He _]. specialize (He eq_refl). discriminate.
    + destruct He as [_ He]. specialize (He eq_refl). discriminate.
    + cbn [map]. unfold line_text. fold (texts (rev (t :: cur))). fold (texts (rev (t0 :: cur'))). now rewrite Hc.
  - cbn [split_cr]. rewrite <- Hk. destruct (is_cr a).
    + cbn [map]. f_equal; [exact Hc|]. apply IH; [reflexivity|tauto].
    + apply IH.
      * rewrite !texts_rev_cons. now rewrite Hc, Hv.
      * split; discriminate.
  - rewrite !split_cr_nocr_prefix by assumption. apply IH.
    + rewrite !rev_app_distr, !rev_involutive, !texts_app. now rewrite Hc, Ht.
    + split; intros E; apply app_eq_nil in E; destruct E as [E _];
        apply (f_equal (@rev tok)) in E; rewrite rev_involutive in E; cbn in E; congruence.
Qed.

Theorem regroup_get_lines l l' : regroup l l' -> get_lines l' = get_lines l.
Proof. intros H. unfold get_lines. f_equal. symmetry. apply split_cr_regroup; [assumption|reflexivity|tauto]. Qed.

(* ---------------- the trailing-whitespace normaliser of rule_list.fix ---------------- *)
(* closed form: a whitespace token directly followed by a carriage return is dropped, nothing else changes
   (the first token is special: python's lTokens[-1] is the last token, and popping the empty output raises) *)
Fixpoint drop_trailing (l : list tok) : list tok :=
  match l with
  | a :: ((b :: _) as r) => if is_ws a && is_cr b then drop_trailing r else a :: drop_trailing r
  | _ => l
  end.

Lemma nth_error_last {A} (l : list A) d : l <> [] -> nth_error l (length l - 1) = Some (last l d).
Proof.
  induction l as [|a l IH]; [congruence|]. intros _. destruct l as [|b l']; [reflexivity|].
  replace (length (a :: b :: l') - 1) with (S (length (b :: l') - 1)) by (cbn; lia).
  cbn [nth_error]. rewrite IH by discriminate. reflexivity.
Qed.

(* the part of the statement that is used: on a list in which no whitespace token is directly followed by a
   carriage return the normaliser changes nothing; and its output has that shape when no two whitespace tokens
   are adjacent - so running it twice equals running it once *)
Definition ws_before_cr_free (l : list tok) : Prop :=
  forall pre a b post, l = pre ++ a :: b :: post -> is_ws a = true -> is_cr b = true -> False.

Lemma ftw_noop l : forall out p,
  (match out with t :: _ => p = Some (tk t) | [] => True end) ->
  (out = [] -> okind_is p KWs = false \/ True) ->
  (forall a b post pre, rev out ++ l = pre ++ a :: b :: post -> is_ws a = true -> is_cr b = true -> False) ->
  (out = [] -> match l with t :: _ => is_cr t = true -> okind_is p KWs = false | [] => True end) ->
  ftw p out l = rev out ++ l.
Proof.
  induction l as [|t r IH]; intros out p Hp _ Hfree H0; cbn [ftw]; [now rewrite app_nil_r|].
  destruct (kind_eqb (tk t) KCr && okind_is p KWs) eqn:E.
  - exfalso. apply andb_prop in E. destruct E as [E1 E2].
    destruct out as [|o out'].
    + specialize (H0 eq_refl E1). congruence.
    + subst p. cbn in E2. apply (Hfree o t r (rev out')).
      * cbn [rev]. now rewrite <- app_assoc.
      * exact E2.
      * exact E1.
  - rewrite IH.
    + cbn [rev]. now rewrite <- app_assoc.
    + reflexivity.
    + auto.
    + intros a b post pre Heq. apply (Hfree a b post pre). cbn [rev] in Heq. now rewrite <- app_assoc in Heq.
    + discriminate.
Qed.

Theorem fix_trailing_whitespace_noop l : ws_before_cr_free l ->
  (match l with t :: _ => is_cr t = true -> is_ws (last l t) = false | [] => True end) ->
  fix_trailing_whitespace l = l.
Proof.
  intros Hf H0. unfold fix_trailing_whitespace. rewrite ftw_noop; auto.
  - intros a b post pre Heq. cbn in Heq. now apply (Hf pre a b post).
  - intros _. destruct l as [|t r]; [exact I|]. intros Hc. specialize (H0 Hc).
    rewrite (nth_error_last (t :: r) t) by discriminate. cbn [option_map okind_is].
    unfold is_ws in H0. exact H0.
Qed.
