(* Model of the two result loops of __main__.main (sequential, and multiprocessing.Pool.imap) and of the
   aggregation that follows. [f] is apply_rules applied to (index, file name); purity of [f] is the hypothesis
   every theorem states - it is what the correspondence check explores on the real tool. *)
From Coq Require Import List Bool Arith Lia.
Import ListNotations.

Section J.
Variable F R : Type.            (* file names, per-file results *)
Variable f : F -> R.            (* apply_rules for one file *)
Variable stop : R -> bool.      (* the sixth component of the result tuple: stop processing files *)
Variable status : R -> bool.    (* fExitStatus of the file *)

(* for ... : append, print, if stop: break *)
Fixpoint through_stop (l : list R) : list R :=
  match l with
  | [] => []
  | x :: r => if stop x then [x] else x :: through_stop r
  end.

Definition main_seq (files : list F) : list R := through_stop (map f files).

(* Pool.imap: workers complete tasks in any order; results are stored by task index and handed to the
   consumer strictly in index order *)
Definition buffer := list (nat * R).
Fixpoint lookup (i : nat) (b : buffer) : option R :=
  match b with [] => None | (j, x) :: r => if Nat.eqb i j then Some x else lookup i r end.
Definition complete (files : list F) (order : list nat) : buffer :=
  flat_map (fun i => match nth_error files i with Some x => [(i, f x)] | None => [] end) order.
Fixpoint collect (b : buffer) (n i : nat) : list R :=   (* the consumer: indices i, i+1, ... i+n-1 *)
  match n with
  | O => []
  | S n' => match lookup i b with Some x => x :: collect b n' (S i) | None => [] end
  end.
Definition main_pool (files : list F) (order : list nat) : list R :=
  through_stop (collect (complete files order) (length files) 0).

(* aggregation *)
Definition exit_status (rs : list R) : bool := existsb status rs.
End J.
