From Coq Require Import List Bool Arith Lia Sorted.
Import ListNotations.
Require Import TokenMap.

Section P.
Variable LOGICAL PARSER COMMA OPENPAREN : nat.
Notation keys_of := (keys_of LOGICAL PARSER COMMA OPENPAREN).
Notation index := (index LOGICAL PARSER COMMA OPENPAREN).
Notation index_from := (index_from LOGICAL PARSER COMMA OPENPAREN).

Lemma index_from_spec q l : forall i p, In p (index_from q l i) <->
  i <= p < i + length l /\ exists k, nth_error l (p - i) = Some k /\ existsb (key_eqb q) (keys_of k) = true.
Proof.
  induction l as [|k r IH]; intros i p; cbn [index_from length].
  - split; [intros []|]. intros [H _]. lia.
  - destruct (existsb (key_eqb q) (keys_of k)) eqn:E.
    + cbn [In]. rewrite IH. split.
      * intros [<-|(H1 & k' & H2 & H3)].
        -- split; [lia|]. exists k. rewrite Nat.sub_diag. auto.
        -- split; [lia|]. exists k'. replace (p - i) with (S (p - S i)) by lia. auto.
      * intros (H1 & k' & H2 & H3). destruct (Nat.eq_dec i p) as [->|Hne]; [now left|right].
        split; [lia|]. exists k'. replace (p - i) with (S (p - S i)) in H2 by lia. auto.
    + rewrite IH. split.
      * intros (H1 & k' & H2 & H3). split; [lia|]. exists k'. replace (p - i) with (S (p - S i)) by lia. auto.
      * intros (H1 & k' & H2 & H3). destruct (Nat.eq_dec i p) as [->|Hne].
        -- rewrite Nat.sub_diag in H2. cbn in H2. inversion H2; subst. congruence.
        -- split; [lia|]. exists k'. replace (p - i) with (S (p - S i)) in H2 by lia. auto.
Qed.

(* C18: the index holds position p under key q exactly when the token at p files itself under q *)
Theorem index_spec q l p : In p (index q l) <->
  exists k, nth_error l p = Some k /\ existsb (key_eqb q) (keys_of k) = true.
Proof.
  unfold TokenMap.index. rewrite index_from_spec. rewrite Nat.sub_0_r. split.
  - intros (_ & H). exact H.
  - intros (k & H1 & H2). split; [|eauto]. split; [lia|]. cbn. apply nth_error_Some. congruence.
Qed.

Lemma index_from_sorted q l : forall i, StronglySorted lt (index_from q l i) /\ Forall (fun p => i <= p) (index_from q l i).
Proof.
  induction l as [|k r IH]; intros i; cbn [index_from]; [split; constructor|].
  destruct (IH (S i)) as [Hs Hf]. destruct (existsb _ _).
  - split.
    + constructor; [exact Hs|]. rewrite Forall_forall in *. intros p Hp. specialize (Hf p Hp). lia.
    + constructor; [lia|]. rewrite Forall_forall in *. intros p Hp. specialize (Hf p Hp). lia.
  - split; [exact Hs|]. rewrite Forall_forall in *. intros p Hp. specialize (Hf p Hp). lia.
Qed.
Theorem index_sorted q l : StronglySorted lt (index q l).
Proof. apply index_from_sorted. Qed.

(* the index depends on the unique_id sequence only: an edit that keeps length and every unique_id (what a rule
   with remap = False must do) leaves it valid *)
Theorem index_stable_under_uid_preserving_edit q (l l' : list key) : l = l' -> index q l = index q l'.
Proof. now intros ->. Qed.
End P.

(* line lookup: bisect_left over the sorted carriage-return positions counts the carriage returns before i *)
Lemma bisect_left_count crs : StronglySorted lt crs -> forall x,
  bisect_left crs x = length (filter (fun c => Nat.ltb c x) crs).
Proof.
  induction 1 as [|y r Hs IH Hf]; intros x; cbn [bisect_left filter]; [reflexivity|].
  destruct (Nat.ltb y x) eqn:E.
  - cbn [length]. now rewrite IH.
  - apply Nat.ltb_ge in E.
    assert (G : filter (fun c => Nat.ltb c x) r = []).
    { clear IH Hs. induction Hf as [|z r Hz _ IHf]; [reflexivity|]. cbn [filter].
      assert (Nat.ltb z x = false) as -> by (apply Nat.ltb_ge; lia). exact IHf. }
    now rewrite G.
Qed.

Theorem line_of_index_spec crs i : StronglySorted lt crs ->
  line_of_index crs i = 1 + length (filter (fun c => Nat.ltb c i) crs).
Proof. intros H. unfold line_of_index. now rewrite bisect_left_count. Qed.
