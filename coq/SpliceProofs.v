From Coq Require Import List Arith Lia.
Import ListNotations.
Require Import Splice.

Section P.
Context {A : Type}.
Notation edit := (edit A).

Lemma wf_le pos len (es : list edit) : wf pos len es -> pos <= len.
Proof. revert pos. induction es as [|e r IH]; cbn; intros pos H; [exact H|].
  destruct H as (H1 & H2 & H3). specialize (IH _ H3). lia. Qed.

Lemma skipn_skipn' (a b : nat) : forall (l : list A), skipn a (skipn b l) = skipn (b + a) l.
Proof. induction b as [|b IH]; intros l; cbn; [reflexivity|]. destruct l; [now rewrite skipn_nil|apply IH]. Qed.

Lemma update_cons l e (r : list edit) : update l (e :: r) = apply1 (update l r) e.
Proof. unfold update. cbn [rev]. now rewrite fold_left_app. Qed.

(* the closed form *)
Lemma firstn_app_le (n : nat) (l1 l2 : list A) : n <= length l1 -> firstn n (l1 ++ l2) = firstn n l1.
Proof. intros H. rewrite firstn_app. replace (n - length l1) with 0 by lia. cbn. now rewrite app_nil_r. Qed.

Lemma skipn_app_eq (l1 l2 : list A) n : n = length l1 -> skipn n (l1 ++ l2) = l2.
Proof. intros ->. rewrite skipn_app, Nat.sub_diag, skipn_all. reflexivity. Qed.

Lemma firstn_split (a b : nat) (l : list A) : a <= b ->
  firstn b l = firstn a l ++ firstn (b - a) (skipn a l).
Proof.
  intros H. rewrite <- (firstn_skipn a l) at 1.
  destruct (Nat.le_gt_cases (length l) a) as [Hl|Hl].
  - rewrite (skipn_all2 l) by lia. rewrite app_nil_r, firstn_nil, app_nil_r.
    rewrite firstn_firstn. f_equal. lia.
  - rewrite firstn_app, firstn_length, Nat.min_l by lia.
    rewrite firstn_firstn, Nat.min_r by lia. reflexivity.
Qed.

Theorem update_sorted_disjoint (es : list edit) : forall pos l,
  wf pos (length l) es ->
  update l es = firstn pos l ++ splice pos (skipn pos l) es.
Proof.
  induction es as [|e r IH]; intros pos l H.
  - cbn. now rewrite firstn_skipn.
  - cbn [wf] in H. destruct H as (H1 & H2 & H3).
    pose proof (wf_le _ _ _ H3) as Hlen.
    rewrite update_cons, (IH (e_stop e) l H3). unfold apply1.
    rewrite Nat.max_r by lia.
    assert (L : length (firstn (e_stop e) l) = e_stop e) by (rewrite firstn_length; lia).
    rewrite firstn_app_le by lia.
    rewrite firstn_firstn, Nat.min_l by lia.
    rewrite skipn_app_eq by (symmetry; exact L).
    cbn [splice]. rewrite skipn_skipn'. replace (pos + (e_stop e - pos)) with (e_stop e) by lia.
    rewrite (firstn_split pos (e_start e) l) by lia. now rewrite <- app_assoc.
Qed.

(* any relation that is a congruence for ++ transfers from the slices to the whole list *)
Variable R : list A -> list A -> Prop.
Hypothesis R_refl : forall l, R l l.
Hypothesis R_app : forall a a' b b', R a a' -> R b b' -> R (a ++ b) (a' ++ b').

(* closed form written with absolute slices of the original list *)
Fixpoint splice_abs (l : list A) (pos : nat) (es : list edit) : list A :=
  match es with
  | [] => skipn pos l
  | e :: r => slice l pos (e_start e) ++ e_new e ++ splice_abs l (e_stop e) r
  end.

Lemma splice_is_abs (es : list edit) : forall pos l, wf pos (length l) es ->
  splice pos (skipn pos l) es = splice_abs l pos es.
Proof.
  induction es as [|e r IH]; intros pos l H; cbn [splice splice_abs]; [reflexivity|].
  cbn [wf] in H. destruct H as (H1 & H2 & H3).
  unfold slice. f_equal. f_equal.
  rewrite skipn_skipn'. replace (pos + (e_stop e - pos)) with (e_stop e) by lia.
  apply IH. exact H3.
Qed.

Lemma skipn_split (a b : nat) (l : list A) : a <= b -> skipn a l = slice l a b ++ skipn b l.
Proof.
  intros H. unfold slice.
  rewrite <- (firstn_skipn (b - a) (skipn a l)) at 1. f_equal.
  rewrite skipn_skipn'. f_equal. lia.
Qed.

Lemma splice_abs_congruence (es : list edit) : forall pos l, wf pos (length l) es ->
  Forall (fun e => R (slice l (e_start e) (e_stop e)) (e_new e)) es ->
  R (skipn pos l) (splice_abs l pos es).
Proof.
  induction es as [|e r IH]; intros pos l H HF; cbn [splice_abs]; [apply R_refl|].
  cbn [wf] in H. destruct H as (H1 & H2 & H3).
  inversion HF as [|? ? He Hr]; subst.
  rewrite (skipn_split pos (e_start e)) by lia. apply R_app; [apply R_refl|].
  rewrite (skipn_split (e_start e) (e_stop e)) by lia. apply R_app; [exact He|].
  apply IH; assumption.
Qed.

Theorem update_congruence (es : list edit) l : wf 0 (length l) es ->
  Forall (fun e => R (slice l (e_start e) (e_stop e)) (e_new e)) es ->
  R l (update l es).
Proof.
  intros H HF. rewrite (update_sorted_disjoint es 0 l H). cbn [firstn app].
  rewrite splice_is_abs by exact H.
  change l with (skipn 0 l) at 1. now apply splice_abs_congruence.
Qed.
End P.
Print Assumptions update_congruence.

(* ---- length-preserving, pointwise related edits: sortedness and disjointness are not needed ---- *)
Section Pointwise.
Context {A : Type}.
Variable P : A -> A -> Prop.
Hypothesis P_refl : forall x, P x x.

Lemma Forall2_firstn n : forall (l l' : list A), Forall2 P l l' -> Forall2 P (firstn n l) (firstn n l').
Proof. induction n as [|n IH]; intros l l' H; cbn; [constructor|]. destruct H; constructor; auto. Qed.
Lemma Forall2_skipn n : forall (l l' : list A), Forall2 P l l' -> Forall2 P (skipn n l) (skipn n l').
Proof. induction n as [|n IH]; intros l l' H; cbn; [exact H|]. destruct H; [constructor|auto]. Qed.
Lemma Forall2_length' (l l' : list A) : Forall2 P l l' -> length l = length l'.
Proof. induction 1; cbn; auto. Qed.

Definition inrange_lenpres (len : nat) (e : edit A) : Prop :=
  e_start e <= e_stop e /\ e_stop e <= len /\ length (e_new e) = e_stop e - e_start e.

Lemma apply1_pointwise l cur e : Forall2 P l cur -> inrange_lenpres (length l) e ->
  Forall2 P (slice l (e_start e) (e_stop e)) (e_new e) -> Forall2 P l (apply1 cur e).
Proof.
  intros H (H1 & H2 & H3) Hs. unfold apply1. rewrite Nat.max_r by lia.
  assert (E : l = firstn (e_start e) l ++ slice l (e_start e) (e_stop e) ++ skipn (e_stop e) l).
  { unfold slice. rewrite <- (firstn_skipn (e_start e) l) at 1. f_equal.
    rewrite <- (firstn_skipn (e_stop e - e_start e) (skipn (e_start e) l)) at 1. f_equal.
    rewrite skipn_skipn'. f_equal. lia. }
  rewrite E at 1. apply Forall2_app; [now apply Forall2_firstn|].
  apply Forall2_app; [exact Hs|now apply Forall2_skipn].
Qed.

Theorem update_pointwise (es : list (edit A)) l :
  Forall (fun e => inrange_lenpres (length l) e /\ Forall2 P (slice l (e_start e) (e_stop e)) (e_new e)) es ->
  Forall2 P l (update l es).
Proof.
  intros H. unfold update. apply Forall_rev in H. revert H. generalize (rev es). intros rs H.
  assert (G : forall cur, Forall2 P l cur -> Forall2 P l (fold_left apply1 rs cur)).
  { induction H as [|e r [He Hs] _ IH]; intros cur Hc; cbn; [exact Hc|]. apply IH. now apply apply1_pointwise. }
  apply G. clear G H. induction l as [|a l IHl]; constructor; [apply P_refl|exact IHl].
Qed.
End Pointwise.
