From Coq Require Import List NArith Bool Arith Lia.
Import ListNotations.
Local Open Scope N_scope.

(* characters are code points; a token is a string = list of code points *)
Definition chr := N.
Definition str := list chr.

Definition str_eqb (a b : str) : bool :=
  if list_eq_dec N.eq_dec a b then true else false.
Definition mem_str (s : str) (l : list str) : bool := existsb (str_eqb s) l.

(* ---- Latin-1 character tables (python str methods on code points 0..255) ---- *)
Definition c_isspace (c : chr) : bool :=
  ((9 <=? c) && (c <=? 13)) || ((28 <=? c) && (c <=? 32)) || (c =? 133) || (c =? 160).
Definition c_isdigit (c : chr) : bool :=
  ((48 <=? c) && (c <=? 57)) || (c =? 178) || (c =? 179) || (c =? 185).
Definition c_lower (c : chr) : chr :=
  if ((65 <=? c) && (c <=? 90)) || (((192 <=? c) && (c <=? 222)) && negb (c =? 215)) then c + 32 else c.

Definition s_isspace (s : str) : bool := negb (Nat.eqb (length s) 0) && forallb c_isspace s.
Definition s_isdigit (s : str) : bool := negb (Nat.eqb (length s) 0) && forallb c_isdigit s.
Definition s_lower (s : str) : str := map c_lower s.

Section Syms.
Variable single_syms : list str.
Variable two_syms : list str.
Variable three_syms : list str.
Variable stop_chars : list str.

Definition SP : chr := 32.
Definition DQ : chr := 34.
Definition SQ : chr := 39.
Definition BS : chr := 92.
Definition LP : chr := 40.

(* pass 0: convert_string_to_chars *)
Definition to_chars (s : str) : list str := map (fun c => [c]) s.

(* pass 1: combine_whitespace *)
Fixpoint cw (l : list str) (acc : list str) (sp : str) : list str :=
  match l with
  | [] => rev (sp :: acc)
  | c :: r =>
      if s_isspace c then cw r acc (sp ++ c)
      else if s_isspace sp then cw r (c :: sp :: acc) []
      else cw r (c :: acc) sp
  end.
Definition combine_whitespace l := cw l [] [].

(* helpers on indexes *)
Fixpoint find_idx_from (v : str) (l : list str) (i : nat) : list nat :=
  match l with
  | [] => []
  | x :: r => if str_eqb x v then i :: find_idx_from v r (S i) else find_idx_from v r (S i)
  end.
Definition find_indexes (v : str) (l : list str) := find_idx_from v l 0.

(* combine_quote_pairs: self.lChars[0:iLeft] + [join(lChars[iLeft:iRight])] + lChars[iRight:] *)
Definition slice {A} (l : list A) (i j : nat) : list A := firstn (j - i) (skipn i l).
Definition merge_range (l : list str) (iLeft iRightIncl : nat) : list str :=
  let iRight := S iRightIncl in
  firstn iLeft l ++ [concat (slice l iLeft iRight)] ++ skipn iRight l.
Definition combine_quote_pairs (pairs : list (nat * nat)) (l : list str) : list str :=
  fold_left (fun acc p => merge_range acc (fst p) (snd p)) pairs l.

(* pass 2: combine_string_literals *)
Fixpoint pair_up (l : list nat) : list (nat * nat) :=
  match l with
  | a :: b :: r => (a, b) :: pair_up r
  | _ => []
  end.
Definition combine_string_literals (l : list str) : list str :=
  combine_quote_pairs (rev (pair_up (find_indexes [DQ] l))) l.

(* pass 3: combine_backslash_characters_into_symbols *)
Definition has_space (s : str) : bool := existsb (N.eqb SP) s.
Definition stop_found (c : str) (b : bool) : bool := (mem_str c stop_chars || has_space c) && b.
Fixpoint cb (l : list str) (acc : list str) (sym : str) (b : bool) : list str :=
  match l with
  | [] => rev (if Nat.eqb (length sym) 0 then acc else sym :: acc)
  | c :: r =>
      let stop := stop_found c b in
      let acc1 := if stop then sym :: acc else acc in
      let sym1 := if stop then [] else sym in
      let b1 := if stop then false else b in
      let b2 := if str_eqb c [BS] then true else b1 in
      let sym2 := if b2 then sym1 ++ c else sym1 in
      let acc2 := if b2 then acc1 else c :: acc1 in
      cb r acc2 sym2 b2
  end.
Definition combine_backslash (l : list str) := cb l [] [] false.

(* pass 4/5: n-character symbols, while loop on fuel *)
Fixpoint comb_n (n : nat) (syms : list str) (fuel : nat) (l : list str) : option (list str) :=
  match l with
  | [] => Some []
  | x :: r =>
    match fuel with
    | O => None
    | S f =>
      let s := concat (firstn n l) in
      if mem_str s syms then
        match comb_n n syms f (skipn n l) with Some t => Some (s :: t) | None => None end
      else
        match comb_n n syms f r with Some t => Some (x :: t) | None => None end
    end
  end.

(* pass 6: combine_characters_into_words *)
Definition is_word_char (c : str) : bool :=
  if Nat.ltb 1 (length c) then false
  else if s_isspace c then false
  else if mem_str c single_syms then false
  else true.
Fixpoint cwd (l : list str) (acc : list str) (tmp : str) : list str :=
  match l with
  | [] => rev (if Nat.eqb (length tmp) 0 then acc else tmp :: acc)
  | c :: r =>
      if is_word_char c then cwd r acc (tmp ++ c)
      else cwd r (c :: (if Nat.eqb (length tmp) 0 then acc else tmp :: acc)) []
  end.
Definition combine_words l := cwd l [] [].

(* pass 7: character literals *)
Definition nth_str (l : list str) (i : nat) : str := nth i l [].
Fixpoint cands (quotes : list nat) (l : list str) : list (nat * nat) :=
  match quotes with
  | q :: ((q2 :: _) as r) =>
      if Nat.eqb (q + 2) q2 && Nat.eqb (length (nth_str l (S q))) 1 && negb (str_eqb (nth_str l (S q)) [LP])
      then (q, q + 2)%nat :: cands r l else cands r l
  | _ => []
  end.
(* filter_character_literal_candidates, python negative index wrap for i = 0 *)
Fixpoint filt (all : list (nat*nat)) (prev : nat * nat) (l : list (nat*nat)) : list (nat*nat) :=
  match l with
  | [] => []
  | [x] => [x]
  | x :: ((nx :: _) as r) =>
      if Nat.eqb (snd x) (fst nx) && Nat.eqb (fst x) (snd prev) then filt all x r
      else x :: filt all x r
  end.
Definition filter_cands (l : list (nat*nat)) : list (nat*nat) :=
  match l with
  | [] => []
  | _ => filt l (last l (0,0)%nat) l
  end.
Definition combine_char_literals (l : list str) : list str :=
  let c := cands (find_indexes [SQ] l) l in
  match c with
  | [] => l
  | _ => combine_quote_pairs (rev (filter_cands c)) l
  end.

(* pass 8: split_natural_numbers *)
Definition E_lo : chr := 101.
Fixpoint split_on (sep : chr) (s : str) (cur : str) : list str :=
  match s with
  | [] => [cur]
  | c :: r => if N.eqb c sep then cur :: split_on sep r [] else split_on sep r (cur ++ [c])
  end.
Definition is_natural_number (s : str) : bool :=
  let ls := split_on E_lo (s_lower s) [] in
  let base := split_on 46 (hd [] ls) [] ++ tl ls in
  forallb s_isdigit (removelast base).
Fixpoint pnn (s : str) (acc : list str) (tmp : str) : list str :=
  match s with
  | [] => rev (if Nat.eqb (length tmp) 0 then acc else tmp :: acc)
  | c :: r => if N.eqb (c_lower c) E_lo then pnn r ([c] :: tmp :: acc) [] else pnn r acc (tmp ++ [c])
  end.
Definition split_natural_numbers (l : list str) : list str :=
  flat_map (fun t => if is_natural_number t then pnn t [] [] else [t]) l.

(* pass 9: bit string literal prefix *)
Definition ends_bodx (s : str) : bool :=
  match rev (s_lower s) with
  | c :: _ => (c =? 98) || (c =? 111) || (c =? 120) || (c =? 100)
  | [] => false
  end.
Definition starts_dq (s : str) : bool := match s with c :: _ => c =? DQ | [] => false end.
Fixpoint digits_prefix (s : str) : nat :=
  match s with c :: r => if c_isdigit c then S (digits_prefix r) else O | [] => O end.
Fixpoint sbs (l : list str) : list str :=
  match l with
  | [] => []
  | x :: r =>
      match r with
      | nx :: _ =>
          if ends_bodx x && starts_dq nx then
            let k := digits_prefix x in
            filter (fun t => negb (Nat.eqb (length t) 0)) [firstn k x; skipn k x] ++ sbs r
          else x :: sbs r
      | [] => x :: sbs r
      end
  end.

Definition create (s : str) : option (list str) :=
  let l1 := combine_whitespace (to_chars s) in
  let l2 := combine_string_literals l1 in
  let l3 := combine_backslash l2 in
  match comb_n 3 three_syms (length l3) l3 with
  | None => None
  | Some l4 =>
    match comb_n 2 two_syms (length l4) l4 with
    | None => None
    | Some l5 =>
      let l6 := combine_words l5 in
      let l7 := combine_char_literals l6 in
      let l8 := split_natural_numbers l7 in
      Some (sbs l8)
    end
  end.
End Syms.
