(* C14: exit status and every report format tell the same story. Statements only. *)
Require Import List Bool Arith Permutation Sorted.
Import ListNotations.
Require Import Report ReportProofs.

(* the table of the vsg / syntastic formats is the JSON list, stably sorted by line *)
Theorem C14_table_is_permutation : forall p, Permutation (table_rows p) (json_rows p).
Proof. exact table_is_permutation. Qed.
Print Assumptions C14_table_is_permutation.
Theorem C14_table_sorted_stable : forall p,
  StronglySorted le_line (table_rows p) /\
  forall k, filter (on_line k) (table_rows p) = filter (on_line k) (json_rows p).
Proof. exact table_sorted_stable. Qed.
Print Assumptions C14_table_sorted_stable.

(* counts printed = entries listed *)
Theorem C14_total_is_number_of_rows : forall p, total p = length (json_rows p).
Proof. exact total_is_number_of_rows. Qed.
Print Assumptions C14_total_is_number_of_rows.
Theorem C14_counts_add_up : forall p nsev, Forall (fun x => r_sev x < nsev) (all_rows p) ->
  list_sum (sev_counts nsev p) = total p.
Proof. exact counts_add_up. Qed.
Print Assumptions C14_counts_add_up.

(* JUnit = the error-type rows, nothing else *)
Theorem C14_junit_is_error_rows : forall p, junit_rows p = filter r_error (json_rows p) /\
  Permutation (junit_rows p) (filter r_error (table_rows p)).
Proof. exact junit_is_error_rows. Qed.
Print Assumptions C14_junit_is_error_rows.

(* the file's exit contribution <-> an error-type row is listed; the summary verdict is its negation *)
Theorem C14_status_iff_error_row : forall p,
  file_status p = true <-> exists x, In x (table_rows p) /\ r_error x = true.
Proof. exact status_iff_error_row. Qed.
Print Assumptions C14_status_iff_error_row.
Theorem C14_summary_verdict_is_status : forall p, summary_ok_by_type p = negb (file_status p).
Proof. exact summary_verdict_is_status. Qed.
Print Assumptions C14_summary_verdict_is_status.

(* process exit status 0 <-> every file was processed and no error-type violation is reported *)
Theorem C14_exit_zero_iff : forall fs,
  exit_status fs = false <->
  forall f, In f fs -> exists p, f = Processed p /\ forall x, In x (json_rows p) -> r_error x = false.
Proof. exact exit_zero_iff. Qed.
Print Assumptions C14_exit_zero_iff.

(* the verdict keyed on the severity NAME "Error" (code before fix) contradicts the exit status *)
Theorem C14_summary_by_name_refuted : exists p, summary_ok p = true /\ file_status p = true.
Proof. exact summary_by_name_refuted. Qed.
Print Assumptions C14_summary_by_name_refuted.
