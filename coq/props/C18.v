(* C18: the token index and every rule's region of interest mirror the token list. Statements only. *)
Require Import List NArith Bool Arith Sorted.
Import ListNotations.
Require Import Splice SpliceProofs TokenMap TokenMapProofs.

Theorem C18_index_spec : forall LOGICAL PARSER COMMA OPENPAREN q l p,
  In p (index LOGICAL PARSER COMMA OPENPAREN q l) <->
  exists k, nth_error l p = Some k /\ existsb (key_eqb q) (keys_of LOGICAL PARSER COMMA OPENPAREN k) = true.
Proof. exact index_spec. Qed.
Print Assumptions C18_index_spec.
Theorem C18_index_sorted : forall LOGICAL PARSER COMMA OPENPAREN q l,
  StronglySorted lt (index LOGICAL PARSER COMMA OPENPAREN q l).
Proof. exact index_sorted. Qed.
Print Assumptions C18_index_sorted.

(* a fix overwrites the analysed slices and nothing else *)
Theorem C18_update_overwrites_analysed : forall A (es : list (edit A)) pos l,
  wf pos (length l) es -> update l es = firstn pos l ++ splice pos (skipn pos l) es.
Proof. intros A. exact (@update_sorted_disjoint A). Qed.
Print Assumptions C18_update_overwrites_analysed.

Require Import UniqueProofs.
(* an update whose inserted tokens are distinct objects, different from every token it keeps, never makes an object
   stand at two positions of the list; the trace check reports the rule application after which one does *)
Theorem C18_update_keeps_objects_distinct : forall A B (f : A -> B) (es : list (edit A)) l, wf 0 (length l) es ->
  NoDup (map f (kept_abs l 0 es ++ inserted es)) -> NoDup (map f (update l es)).
Proof. intros A B. exact (@update_keeps_objects_distinct A B). Qed.
Print Assumptions C18_update_keeps_objects_distinct.
