(* C03: each phase only makes the kind of change it is documented to make. Statements only. *)
Require Import List NArith Bool Arith.
Import ListNotations.
Require Import Tokenizer Splice SpliceProofs Equiv EquivProofs Phases PhasesProofs RuleDoc GenProps.

(* what the documentation says about a rule (phase, group, fixable, disabled, severity) is what the rule object
   says, for every implemented rule of the tables regenerated from /repo on this run *)
Theorem C03_docs_agree : forall i, i < n_rules ->
  row_agrees (nth i rule_rows (mkrrow 0 0 false false false false)) (nth i doc_rows (mkrrow 0 0 false false false false)) = true.
Proof. exact docs_agree_all. Qed.
Print Assumptions C03_docs_agree.

(* Rule.fix is reached only for enabled, error-typed rules; _fix_violation only when also fixable *)
Theorem C03_fix_calls_only_error_enabled : forall rules fix_phase skip r,
  In (EFix r) (fix_events rules fix_phase skip) ->
  In r rules /\ rdisabled r = false /\ rerror r = true /\ 1 <= rphase r <= fix_phase /\ memn (rphase r) skip = false.
Proof. exact fix_calls_only_error_enabled. Qed.
Print Assumptions C03_fix_calls_only_error_enabled.
Theorem C03_fixed_only_fixable : forall V (line : V -> nat) d r vs v,
  In v (fixed_violations line d r vs) -> rfixable r = true /\ In v vs.
Proof. intros V. exact (@fixed_violations_only_fixable V). Qed.
Print Assumptions C03_fixed_only_fixable.

(* layout classes: every token that is not whitespace / line break / blank line keeps identity, role and text *)
Theorem C03_layout_run : forall steps l,
  run_ok c03_layout_ok l steps = true -> nonlayout_sig (run l steps) = nonlayout_sig l.
Proof. exact C03_layout_run. Qed.
Print Assumptions C03_layout_run.

(* case class: same tokens, same kinds, every text and therefore every line keeps its length *)
Theorem C03_case_run : forall af steps l,
  run_ok (c03_case_ok af) l steps = true ->
  shape (run l steps) = shape l /\
  map (@length _) (lines_of (run l steps) []) = map (@length _) (lines_of l []).
Proof. exact C03_case_run. Qed.
Print Assumptions C03_case_run.
Theorem C03_case_step_pointwise : forall af l es,
  lenpres_b (length l) es = true ->
  forallb (fun e => c03_case_ok af (slice l (e_start e) (e_stop e)) (e_new e)) es = true ->
  Forall2 (fun a b => case_tok_ok af a b = true) l (update l es).
Proof. exact C03_case_step_pointwise. Qed.
Print Assumptions C03_case_step_pointwise.
(* ... and literals / extended identifiers stay exactly as they were *)
Theorem C03_case_keeps_exact : forall af a b, case_tok_ok af a b = true -> is_code a = true ->
  exact_value (a_val a) = true -> af (a_role a) = false -> a_val b = a_val a.
Proof. exact case_keeps_exact. Qed.
Print Assumptions C03_case_keeps_exact.

(* naming, length, unfixable, fixable: false, disabled, warning: nothing changes *)
Theorem C03_identity_run : forall steps l, run_ok c03_identity_ok l steps = true -> ident_sig (run l steps) = ident_sig l.
Proof. exact C03_identity_run. Qed.
Print Assumptions C03_identity_run.

(* whatever a rule's fix would do: a rule that is disabled, fixable: false, of warning severity, in a skipped phase or
   beyond --fix_phase never gets to apply it - any property of the token list that the scheduled rules and the
   normaliser keep is kept by the whole run *)
Require Import FullRun Lines.
Theorem C03_only_scheduled_rules_edit : forall edits_of norm rules fix_phase skip (P : list atok -> Prop) l,
  P l -> (forall l', P l' -> P (norm l')) ->
  (forall r l', In r rules -> rdisabled r = false -> rerror r = true -> rfixable r = true ->
                1 <= rphase r <= fix_phase -> memn (rphase r) skip = false -> P l' -> P (update l' (edits_of r l'))) ->
  P (full_run edits_of norm rules fix_phase skip l).
Proof. exact only_scheduled_rules_edit. Qed.
Print Assumptions C03_only_scheduled_rules_edit.

(* the normalisation after phase 1 creates and deletes whitespace and blank-line tokens only *)
Theorem C03_normalisers_keep : forall l,
  filter kept (fix_trailing_whitespace (fix_blank_lines l)) = filter kept l.
Proof. exact normalisers_keep. Qed.
Print Assumptions C03_normalisers_keep.
