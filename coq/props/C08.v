(* C08: what VSG writes is what it would read. Statements only (lexical / line level; roles and indent levels are
   compared differentially, set_token_indent is not modelled). *)
Require Import List NArith Bool Arith.
Import ListNotations.
Require Import Tokenizer TokenizerProofs Symbols Lines LinesProofs Inst Shape ShapeProofs.

(* a token list that is the image of reading some text is reproduced by emitting it and reading it again *)
Theorem C08_reread_fixpoint : forall ls toks, vsg_read ls = Some toks -> vsg_read (tl (get_lines toks)) = Some toks.
Proof.
  intros ls toks H. assert (E : get_lines toks = [] :: ls).
  { revert H. apply emit_read. intros s r. apply create_lossless. }
  rewrite E. exact H.
Qed.
Print Assumptions C08_reread_fixpoint.

(* re-classification and regrouping by the role classifier do not change the emitted text *)
Theorem C08_regroup_same_text : forall l l', regroup l l' -> get_lines l' = get_lines l.
Proof. exact regroup_get_lines. Qed.
Print Assumptions C08_regroup_same_text.

(* a model that emitting and reading reproduces has the reader shape: every line holds an object, a blank_line
   object is alone on its line, no whitespace object is empty.  The trace checker evaluates [shape] after every
   rule application; the first application after which it is lost (and not restored) is reported as the call site *)
Theorem C08_reread_requires_shape : forall m, vsg_read (tl (get_lines m)) = Some m -> shape m = true.
Proof. intros m. apply reread_requires_shape. Qed.
Print Assumptions C08_reread_requires_shape.

Theorem C08_read_has_shape : forall ls toks, vsg_read ls = Some toks -> shape toks = true.
Proof. intros ls toks. apply read_shape. Qed.
Print Assumptions C08_read_has_shape.

(* the normaliser after phase 1 gives every empty line but the first its blank_line object ... *)
Theorem C08_normaliser_fills_inner_empty_lines : forall l, no_cr_cr (fix_blank_lines l) = true.
Proof. exact fix_blank_lines_no_empty_inner_line. Qed.
Print Assumptions C08_normaliser_fills_inner_empty_lines.

(* ... and every blank_line object that leaves it is alone on its line (a stale one is dropped: repaired in /repo by c3b3977) *)
Theorem C08_normaliser_blank_lines_alone : forall l, alone_from true (fix_blank_lines l) = true.
Proof. exact fix_blank_lines_alone. Qed.
Print Assumptions C08_normaliser_blank_lines_alone.

(* ... but an empty first line still gets no blank_line object: on the witness the normalisers are the identity and
   the list is not in reader shape (the full statement "normalise restores the shape" is false of the faithful
   model; this is the witness of the known finding blank_line / carriage_return at token 0) *)
Theorem C08_normaliser_restores_shape_refuted :
  exists l, fix_trailing_whitespace (fix_blank_lines l) = l /\ shape l = false /\ hd_error l = Some CR.
Proof. exact normaliser_first_line_refuted. Qed.
Print Assumptions C08_normaliser_restores_shape_refuted.
