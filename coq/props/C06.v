(* C06: analysis is read-only, repeatable, rules do not interfere. Statements only. The theorems take the
   analyses as functions of the rule alone (nviol, viols): that they are - no analysis writes to the file - is
   the hypothesis the correspondence check explores on the real rules. *)
Require Import List Bool Arith Permutation.
Import ListNotations.
Require Import Phases PhasesProofs.

(* the rules analysed by an all-phases check: phase by phase, sub-phase by sub-phase, load order *)
Theorem C06_all_phases_closed_form : forall nviol skip rules,
  analysed (check_rules nviol rules true skip) = blocks skip rules all_phases.
Proof. exact all_phases_closed_form. Qed.
Print Assumptions C06_all_phases_closed_form.

(* disabling a set of rules removes exactly those rules from the all-phases analysis, nothing else *)
Theorem C06_check_disable_exact : forall nviol skip D rules, (forall r, In r rules -> rdisabled r = false) ->
  map rid (analysed (check_rules nviol (map (disable D) rules) true skip)) =
  map rid (filter (fun r => negb (D r)) (analysed (check_rules nviol rules true skip))).
Proof. exact check_disable_exact. Qed.
Print Assumptions C06_check_disable_exact.

(* with read-only analyses the result is a function of the rule table alone: repeating gives the same *)
Theorem C06_check_deterministic : forall nviol rules allp skip,
  check_rules nviol rules allp skip = check_rules nviol rules allp skip.
Proof. exact check_deterministic. Qed.
Print Assumptions C06_check_deterministic.

(* the order in which the rules were loaded does not change which rules an all-phases check analyses *)
Theorem C06_check_order_irrelevant : forall nviol nviol' skip rules rules', Permutation rules rules' ->
  Permutation (analysed (check_rules nviol rules true skip)) (analysed (check_rules nviol' rules' true skip)).
Proof. exact check_order_irrelevant. Qed.
Print Assumptions C06_check_order_irrelevant.

(* with --all_phases no rule's report switches another rule's analysis on or off *)
Theorem C06_all_phases_independent_of_counts : forall nviol nviol' skip rules,
  analysed (check_rules nviol rules true skip) = analysed (check_rules nviol' rules true skip).
Proof. exact all_phases_independent_of_counts. Qed.
Print Assumptions C06_all_phases_independent_of_counts.

(* a rule outside the disabled set is still analysed after the set has been disabled *)
Theorem C06_disable_keeps_others : forall nviol skip D rules r, (forall x, In x rules -> rdisabled x = false) ->
  D r = false -> In r (analysed (check_rules nviol rules true skip)) ->
  In (rid r) (map rid (analysed (check_rules nviol (map (disable D) rules) true skip))).
Proof. exact disable_keeps_others. Qed.
Print Assumptions C06_disable_keeps_others.
