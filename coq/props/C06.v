(* C06: analysis is read-only, repeatable, rules do not interfere. Statements only. The theorems take the
   analyses as functions of the rule alone (nviol, viols): that they are - no analysis writes to the file - is
   the hypothesis the correspondence check explores on the real rules. *)
Require Import List Bool Arith.
Import ListNotations.
Require Import Phases PhasesProofs.

(* the rules analysed by an all-phases check: phase by phase, sub-phase by sub-phase, load order *)
Theorem C06_all_phases_closed_form : forall nviol skip rules,
  analysed (check_rules nviol rules true skip) = blocks skip rules all_phases.
Proof. exact all_phases_closed_form. Qed.
Print Assumptions C06_all_phases_closed_form.

(* disabling a set of rules removes exactly those rules from the all-phases analysis, nothing else *)
Theorem C06_check_disable_exact : forall nviol skip D rules, (forall r, In r rules -> rdisabled r = false) ->
  map rid (analysed (check_rules nviol (map (disable D) rules) true skip)) =
  map rid (filter (fun r => negb (D r)) (analysed (check_rules nviol rules true skip))).
Proof. exact check_disable_exact. Qed.
Print Assumptions C06_check_disable_exact.

(* with read-only analyses the result is a function of the rule table alone: repeating gives the same *)
Theorem C06_check_deterministic : forall nviol rules allp skip,
  check_rules nviol rules allp skip = check_rules nviol rules allp skip.
Proof. exact check_deterministic. Qed.
Print Assumptions C06_check_deterministic.
