(* C17: the emitted configuration reproduces the run. Statements only. *)
Require Import List Bool Arith.
Import ListNotations.
Require Import Config ConfigProofs.

(* every attribute in rule.configuration that -oc writes comes back with the same value when the file is fed to a
   fresh rule object through --configuration *)
Theorem C17_oc_reconfigure : forall SEV sevlist o o0 k v, NoDup (o_conf o) -> In k (o_conf o) -> k <> SEV ->
  get_key k (o_dict o) = Some v -> in_dict o0 k = true -> o_uid o0 = o_uid o ->
  get_key k (o_dict (configure_rule SEV sevlist (mksec None None [(o_uid o, emitted SEV o)]) o0)) = Some v.
Proof. exact oc_reconfigure. Qed.
Print Assumptions C17_oc_reconfigure.

(* the severity is emitted by name only: a user-defined severity does not survive the round trip unless the
   emitted file also carries the severity section *)
Theorem C17_oc_custom_severity_refuted : exists (o o0 : robj),
  o_sev o = Some 7 /\ o_sev (configure_rule 0 [0; 1] (mksec None None [(o_uid o, [(0, 7)])]) o0) = None.
Proof. exact oc_custom_severity_refuted. Qed.
Print Assumptions C17_oc_custom_severity_refuted.
