(* C19: no crash, no hang. Only the modelled loops are proved total; the rules and the classifier are explored. *)
Require Import List NArith Bool Arith.
Import ListNotations.
Require Import Tokenizer TokenizerProofs Symbols Lines LinesProofs Inst Jobs JobsProofs.

(* the two while loops of the tokenizer never run out of the fuel length(s) *)
Theorem C19_create_total : forall s, vsg_create s <> None.
Proof. intros s. apply create_total. Qed.
Print Assumptions C19_create_total.
Theorem C19_read_total : forall ls, vsg_read ls <> None.
Proof. intros ls. apply read_total. intros s. apply create_total. Qed.
Print Assumptions C19_read_total.

(* a rejected file does not stop the batch: the loop goes on unless a result asks to stop *)
Theorem C19_batch_continues : forall F R (f : F -> R) stop files,
  forallb (fun x => negb (stop (f x))) files = true -> main_seq F R f stop files = map f files.
Proof. exact no_stop_all. Qed.
Print Assumptions C19_batch_continues.

(* ... and the batch then exits with status 1 *)
Theorem C19_rejected_file_fails_batch : forall F R (f : F -> R) (stop status : R -> bool) files x,
  forallb (fun y => negb (stop (f y))) files = true -> In x files -> status (f x) = true ->
  main_seq F R f stop files = map f files /\ exit_status R status (main_seq F R f stop files) = true.
Proof. exact rejected_file_fails_batch. Qed.
Print Assumptions C19_rejected_file_fails_batch.
