(* C04: reading is lossless.  Statements only; proofs live in TokenizerProofs.v / LinesProofs.v *)
Require Import List NArith.
Require Import Tokenizer TokenizerProofs Symbols.

(* for EVERY symbol table (so in particular the one regenerated from vsg/tokens.py) *)
Theorem C04_create_lossless :
  forall sy1 sy2 sy3 st s r, create sy1 sy2 sy3 st s = Some r -> concat r = s.
Proof. exact create_lossless. Qed.
Print Assumptions C04_create_lossless.

Theorem C04_create_total :
  forall sy1 sy2 sy3 st s, create sy1 sy2 sy3 st s <> None.
Proof. exact create_total. Qed.
Print Assumptions C04_create_total.

(* the instance tied to /repo's tables *)
Theorem C04_vsg_create_lossless : forall s r, vsg_create s = Some r -> concat r = s.
Proof. intros s r. apply create_lossless. Qed.
Print Assumptions C04_vsg_create_lossless.
