(* C04: reading is lossless.  Statements only; proofs live in TokenizerProofs.v / LinesProofs.v *)
Require Import List NArith.
Import ListNotations.
Require Import Tokenizer TokenizerProofs Symbols Lines LinesProofs Inst.

(* for EVERY symbol table (so in particular the one regenerated from vsg/tokens.py) *)
Theorem C04_create_lossless :
  forall sy1 sy2 sy3 st s r, create sy1 sy2 sy3 st s = Some r -> concat r = s.
Proof. exact create_lossless. Qed.
Print Assumptions C04_create_lossless.

Theorem C04_create_total :
  forall sy1 sy2 sy3 st s, create sy1 sy2 sy3 st s <> None.
Proof. exact create_total. Qed.
Print Assumptions C04_create_total.

(* the instance tied to /repo's tables *)
Theorem C04_vsg_create_lossless : forall s r, vsg_create s = Some r -> concat r = s.
Proof. intros s r. apply create_lossless. Qed.
Print Assumptions C04_vsg_create_lossless.

(* emit(parse(x)) = x at the line level: reading with the line classifiers (blank, whitespace, comment,
   delimited comment, preprocessor) and emitting with get_lines gives back exactly the lines read *)
Theorem C04_emit_read : forall ls toks, vsg_read ls = Some toks -> get_lines toks = [] :: ls.
Proof. intros ls toks. apply emit_read. intros s r. apply create_lossless. Qed.
Print Assumptions C04_emit_read.

Theorem C04_read_total : forall ls, vsg_read ls <> None.
Proof. intros ls. apply read_total. intros s. apply create_total. Qed.
Print Assumptions C04_read_total.

(* the role classifier and the pragma classifier replace objects one-for-one keeping the value *)
Theorem C04_value_preserving_reclass : forall l l', reclass l l' -> get_lines l' = get_lines l.
Proof. exact value_preserving_reclass. Qed.
Print Assumptions C04_value_preserving_reclass.

(* ... or, where it splits a selected name or glues an operator string, regroups a run keeping its text *)
Theorem C04_regroup_get_lines : forall l l', regroup l l' -> get_lines l' = get_lines l.
Proof. exact regroup_get_lines. Qed.
Print Assumptions C04_regroup_get_lines.
