(* C20: --fix_only fixes what it lists and nothing else. Statements only. *)
Require Import List Bool Arith.
Import ListNotations.
Require Import Phases PhasesProofs.

Theorem C20_filter_spec : forall V (line : V -> nat) d r vs v,
  In v (filter_fix_only line d r vs) <->
  In v vs /\ (d = None \/ exists m ls, d = Some m /\ lookup (rid r) m = Some ls /\
                                (In SAll ls \/ In (SLine (line v)) ls)).
Proof. intros V. exact (@filter_spec V). Qed.
Print Assumptions C20_filter_spec.

Theorem C20_fix_only_all_is_fix : forall V (line : V -> nat) m r (vs : list V),
  (exists ls, lookup (rid r) m = Some ls /\ In SAll ls) ->
  filter_fix_only line (Some m) r vs = filter_fix_only line None r vs.
Proof. intros V. exact (@fix_only_all_is_fix V). Qed.
Print Assumptions C20_fix_only_all_is_fix.

Theorem C20_fix_only_empty_is_identity : forall V (line : V -> nat) r (vs : list V),
  fixed_violations line (Some []) r vs = [].
Proof. intros V. exact (@fix_only_empty_is_identity V). Qed.
Print Assumptions C20_fix_only_empty_is_identity.

(* only a fixable rule ever executes _fix_violation, and only on violations that passed the filter *)
Theorem C20_fixed_only_selected : forall V (line : V -> nat) d r vs v,
  In v (fixed_violations line d r vs) -> rfixable r = true /\ In v vs.
Proof. intros V. exact (@fixed_violations_only_fixable V). Qed.
Print Assumptions C20_fixed_only_selected.
