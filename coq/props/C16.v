(* C16: write-back is all-or-nothing and keeps the file's mode. Statements only. *)
Require Import List Bool Arith.
Import ListNotations.
Require Import WriteBack WriteBackProofs.

Theorem C16_writeback_atomic : forall content (empty : content) sched defmode (s : fs content) fixed orig,
  target _ s = Some orig ->
  let s' := fst (write_vhdl_file content empty sched defmode s fixed) in
  target _ s' = Some orig \/ target _ s' = Some (mkfile _ fixed (mode _ orig)).
Proof. exact writeback_atomic. Qed.
Print Assumptions C16_writeback_atomic.

Theorem C16_writeback_success : forall content (empty : content) defmode (s : fs content) fixed orig,
  target _ s = Some orig ->
  write_vhdl_file content empty (fun _ => Ok _) defmode s fixed =
  (mkfs _ (Some (mkfile _ fixed (mode _ orig))) None (bak _ s), Returned).
Proof. exact writeback_success. Qed.
Print Assumptions C16_writeback_success.

Theorem C16_tmp_removed : forall content (empty : content) sched defmode (s : fs content) fixed,
  sched SStat = Ok _ -> sched SRemove = Ok _ -> target _ s <> None ->
  let '(s', r) := write_vhdl_file content empty sched defmode s fixed in
  r <> Killed -> tmp _ s' = None.
Proof. exact tmp_removed. Qed.
Print Assumptions C16_tmp_removed.

Theorem C16_backup_faithful : forall content (empty : content) sched defmode (s : fs content) fixed orig,
  target _ s = Some orig ->
  let s1 := fst (create_backup content defmode s (BOk _)) in
  bak _ s1 = Some orig /\ target _ s1 = Some orig /\
  bak _ (fst (write_vhdl_file content empty sched defmode s1 fixed)) = Some orig.
Proof. exact backup_faithful. Qed.
Print Assumptions C16_backup_faithful.

Theorem C16_reject_untouched : forall content (empty : content) sched defmode (s : fs content) backup fixed,
  apply_rules_fs content empty sched defmode s (ParseError) backup fixed = (s, Returned) /\
  apply_rules_fs content empty sched defmode s (ConfigError) backup fixed = (s, Returned).
Proof. exact reject_untouched. Qed.
Print Assumptions C16_reject_untouched.

Theorem C16_apply_rules_atomic : forall content (empty : content) sched defmode (s : fs content) p backup fixed orig,
  target _ s = Some orig ->
  let s' := fst (apply_rules_fs content empty sched defmode s p backup fixed) in
  (target _ s' = Some orig \/ target _ s' = Some (mkfile _ fixed (mode _ orig))) /\
  (p <> Fixed true -> target _ s' = Some orig).
Proof. exact apply_rules_atomic. Qed.
Print Assumptions C16_apply_rules_atomic.
