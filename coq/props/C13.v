(* C13: phase gating, --all_phases, --fix_phase, skip_phase. Statements only. *)
Require Import List Bool Arith.
Import ListNotations.
Require Import Phases PhasesProofs.

(* the rules analysed by a gated run = those analysed with --all_phases restricted to phases up to the stop phase;
   without an error-type violation nothing is cut *)
Theorem C13_gated_is_prefix : forall nviol rules skip,
  let g := check_rules nviol rules false skip in
  let a := check_rules nviol rules true skip in
  analysed g = filter (fun r => Nat.leb (rphase r) (lastp g)) (analysed a) /\
  (flag g = false -> analysed g = analysed a).
Proof. exact gated_is_prefix. Qed.
Print Assumptions C13_gated_is_prefix.

(* the same for the reported violations (rule ids unique) *)
Theorem C13_gated_report_is_prefix : forall V (viols : rule -> list V) nviol rules skip,
  NoDup (map rid rules) ->
  let g := check_rules nviol rules false skip in
  let a := check_rules nviol rules true skip in
  report viols rules g = filter (fun rv => Nat.leb (rphase (fst rv)) (lastp g)) (report viols rules a).
Proof. intros V. exact (@gated_report_is_prefix V). Qed.
Print Assumptions C13_gated_report_is_prefix.

(* the exit flag of a gated run is set iff an error-type violation was counted *)
Theorem C13_gated_flag_iff_errors : forall nviol rules skip,
  let g := check_rules nviol rules false skip in
  flag g = Nat.ltb 0 (errs nviol (analysed g)).
Proof. exact gated_flag_iff_errors. Qed.
Print Assumptions C13_gated_flag_iff_errors.

(* a skipped phase, a disabled rule, a phase outside 1..7 is never analysed *)
Theorem C13_analysed_sound : forall nviol rules skip allp r,
  In r (analysed (check_rules nviol rules allp skip)) ->
  In r rules /\ rdisabled r = false /\ memn (rphase r) skip = false /\ In (rphase r) all_phases.
Proof. exact analysed_sound. Qed.
Print Assumptions C13_analysed_sound.

(* --fix_phase N / skip_phase: Rule.fix is only called for enabled error-typed rules of phases 1..N not skipped *)
Theorem C13_fix_phase_bound : forall rules fix_phase skip r,
  In (EFix r) (fix_events rules fix_phase skip) ->
  In r rules /\ rdisabled r = false /\ rerror r = true /\ 1 <= rphase r <= fix_phase /\ memn (rphase r) skip = false.
Proof. exact fix_calls_only_error_enabled. Qed.
Print Assumptions C13_fix_phase_bound.

Theorem C13_analyze_in_fix_bound : forall rules fix_phase skip r,
  In (EAnalyze r) (fix_events rules fix_phase skip) ->
  In r rules /\ rdisabled r = false /\ rerror r = false /\ 1 <= rphase r <= fix_phase /\ memn (rphase r) skip = false.
Proof. exact analyze_calls_only_enabled. Qed.
Print Assumptions C13_analyze_in_fix_bound.
