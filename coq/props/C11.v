(* C11: code tags suppress exactly the tagged rules on exactly the tagged lines. Statements only. *)
Require Import List NArith Bool.
Import ListNotations.
Require Import Tokenizer CodeTags CodeTagsProofs.

(* bare vsg_off: every token up to the next releasing vsg_on is suppressed for every rule *)
Theorem C11_all_persists : forall pre ids mid s r,
  forallb (fun c => negb (releases r c)) mid = true ->
  Forall (fun tl => has_code_tag tl r = true) (skipn (length pre) (stamp_cmds s (pre ++ KOff true ids :: mid))).
Proof. exact all_persists. Qed.
Print Assumptions C11_all_persists.

(* vsg_off naming r: suppressed for r up to the next vsg_on that is bare or names r *)
Theorem C11_named_persists : forall pre ids mid s r, In r ids ->
  forallb (fun c => negb (releases r c)) mid = true ->
  Forall (fun tl => has_code_tag tl r = true) (skipn (length pre) (stamp_cmds s (pre ++ KOff false ids :: mid))).
Proof. exact named_persists. Qed.
Print Assumptions C11_named_persists.

(* outside tagged regions tokens carry no tag at all: nothing is suppressed there *)
Theorem C11_untagged_clean : forall pre ids mid s, forallb quiet mid = true ->
  Forall (fun tl => tl = []) (skipn (S (length pre)) (stamp_cmds s (pre ++ KOn true ids :: mid))).
Proof. exact untagged_clean. Qed.
Print Assumptions C11_untagged_clean.
Theorem C11_no_tags_clean : forall l, forallb quiet l = true -> Forall (fun tl => tl = []) (stamp_cmds st0 l).
Proof. exact no_tags_clean. Qed.
Print Assumptions C11_no_tags_clean.

(* vsg_disable_next_line: exactly the rest of its own line and the following line *)
Theorem C11_next_line_scope : forall s ids rest1 line,
  ignore_cr s = false -> next_tags s = [] -> others rest1 = true -> others line = true ->
  let cmds := KNext ids :: rest1 ++ KCr :: line ++ [KCr] in
  let nt := fold_left (fun l i => add i l) ids [] in
  stamp_cmds s cmds = map (fun _ => tags s ++ nt) cmds /\ run s cmds = s /\
  (forall r, In r ids -> has_code_tag (tags s ++ nt) r = true).
Proof. exact next_line_scope. Qed.
Print Assumptions C11_next_line_scope.

(* the report filter *)
Theorem C11_filter_exact : forall V (toks_of : V -> list (list tag)) r vs v,
  In v (add_violations toks_of r vs) <-> In v vs /\ (forall tl, In tl (toks_of v) -> has_code_tag tl r = false).
Proof. intros V. exact (@filter_exact V). Qed.
Print Assumptions C11_filter_exact.

(* a file wrapped in a bare vsg_off produces an empty report *)
Theorem C11_wrapped_file_silent : forall V (toks_of : V -> list (list tag)) ids rest r vs,
  forallb (fun c => negb (releases r c)) rest = true ->
  (forall v, In v vs -> toks_of v <> [] /\ incl (toks_of v) (stamp_cmds st0 (KOff true ids :: rest))) ->
  add_violations toks_of r vs = [].
Proof. intros V. exact (@wrapped_file_silent V). Qed.
Print Assumptions C11_wrapped_file_silent.
