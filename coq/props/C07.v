(* C07: a rule's fix touches exactly the lines that rule reported. Statements only. *)
Require Import List NArith Bool Arith Sorted.
Import ListNotations.
Require Import Tokenizer Equiv EquivProofs TokenMap TokenMapProofs.

(* the line a violation reports: bisect_left over the carriage-return positions = 1 + carriage returns before i *)
Theorem C07_line_of_index_spec : forall crs i, StronglySorted lt crs ->
  line_of_index crs i = 1 + length (filter (fun c => Nat.ltb c i) crs).
Proof. exact line_of_index_spec. Qed.
Print Assumptions C07_line_of_index_spec.

(* the changed-lines computation the trace checker reports is sound: a listed line differs, and an empty list
   means every line is unchanged *)
Theorem C07_diff_lines_sound : forall a b n k, length a = length b -> In k (diff_lines a b n) ->
  n <= k < n + length a /\ nth (k - n) a [] <> nth (k - n) b [].
Proof. exact diff_lines_sound. Qed.
Print Assumptions C07_diff_lines_sound.
Theorem C07_unchanged_lines_equal : forall before after,
  changed_lines before after = [] -> lines_of before [] = lines_of after [].
Proof. exact unchanged_lines_equal. Qed.
Print Assumptions C07_unchanged_lines_equal.
