(* C01: fixing never changes what the VHDL means. Statements only. The rules are constrained components: every
   edit they are observed to make is run through the boolean obligations below (extracted); these theorems say
   what a run all of whose edits pass them preserves. *)
Require Import List NArith Bool Arith.
Import ListNotations.
Require Import Tokenizer Splice SpliceProofs Equiv EquivProofs.

(* vhdlFile.update with sorted, disjoint, in-range edits = the closed form: everything outside the slices is kept *)
Theorem C01_update_sorted_disjoint : forall A (es : list (edit A)) pos l,
  wf pos (length l) es -> update l es = firstn pos l ++ splice pos (skipn pos l) es.
Proof. intros A. exact (@update_sorted_disjoint A). Qed.
Print Assumptions C01_update_sorted_disjoint.

(* any ++-congruence that holds between each replaced slice and its replacement holds for the whole list *)
Theorem C01_update_congruence : forall A (R : list A -> list A -> Prop),
  (forall l, R l l) -> (forall a a' b b', R a a' -> R b b' -> R (a ++ b) (a' ++ b')) ->
  forall es l, wf 0 (length l) es ->
  Forall (fun e => R (slice l (e_start e) (e_stop e)) (e_new e)) es -> R l (update l es).
Proof. intros A R H1 H2 es l. exact (@update_congruence A R H1 H2 es l). Qed.
Print Assumptions C01_update_congruence.

(* length-preserving pointwise edits need neither sortedness nor disjointness *)
Theorem C01_update_pointwise : forall A (P : A -> A -> Prop), (forall x, P x x) -> forall es l,
  Forall (fun e => inrange_lenpres (length l) e /\ Forall2 P (slice l (e_start e) (e_stop e)) (e_new e)) es ->
  Forall2 P l (update l es).
Proof. intros A P H es l. exact (@update_pointwise A P H es l). Qed.
Print Assumptions C01_update_pointwise.

Theorem C01_wf_b_sound : forall A (es : list (edit A)) pos len, wf_b pos len es = true -> wf pos len es.
Proof. intros A. exact (@wf_b_sound A). Qed.
Print Assumptions C01_wf_b_sound.

(* a whole fix run: the essential code tokens (case-folded, literals and extended identifiers exact, optional
   elements of the committed table dropped) are the same sequence before and after *)
Theorem C01_run : forall always_fold optional steps l,
  run_ok (c01_edit_ok always_fold optional) l steps = true ->
  essential always_fold optional (run l steps) = essential always_fold optional l.
Proof. exact C01_run. Qed.
Print Assumptions C01_run.

(* ... and modulo one pair of parentheses per edit where a condition rule fired *)
Theorem C01_run_paren : forall always_fold optional steps l,
  run_ok (fun o n => c01_edit_ok always_fold optional o n || c01_paren_ok always_fold optional o n) l steps = true ->
  essential_np always_fold optional (run l steps) = essential_np always_fold optional l.
Proof. exact C01_run_paren. Qed.
Print Assumptions C01_run_paren.

(* the whole of rule_list.fix - scheduler, every rule's update, the normalisation after phase 1 - as one function:
   if every edit set that is applied passes the obligation and the normaliser keeps the essential tokens (it only
   touches whitespace and blank-line tokens: normalisers_keep), the run ends with the essential tokens it began with *)
Require Import Phases FullRun.
Theorem C01_full_run : forall edits_of norm always_fold optional rules fix_phase skip l,
  (forall l', essential always_fold optional (norm l') = essential always_fold optional l') ->
  events_ok edits_of norm (c01_edit_ok always_fold optional) l (fix_events rules fix_phase skip) = true ->
  essential always_fold optional (full_run edits_of norm rules fix_phase skip l) = essential always_fold optional l.
Proof.
  intros edits_of norm af opt rules fp skip l Hn H.
  apply (full_run_preserves edits_of norm _ (essential af opt)) with (ok := c01_edit_ok af opt); auto.
  - intros a b. unfold essential. now rewrite filter_app, map_app.
  - intros a b. apply strs_eqb_eq.
Qed.
Print Assumptions C01_full_run.
