(* C10: a rule that has just fixed a file has nothing left to fix. Statements only. *)
Require Import List NArith Bool Arith.
Import ListNotations.
Require Import Splice SpliceProofs Equiv EquivProofs.

(* if what remains after the fix are violations whose repair is the identity on their slice, the second fix is
   the identity on the whole list *)
Theorem C10_fix_twice : forall A (es : list (edit A)) l, wf 0 (length l) es ->
  Forall (fun e => e_new e = slice l (e_start e) (e_stop e)) es -> update l es = l.
Proof. intros A. exact (@identity_edits_no_change A). Qed.
Print Assumptions C10_fix_twice.

Theorem C10_no_violations_no_change : forall A (l : list A), update l [] = l.
Proof. reflexivity. Qed.
Print Assumptions C10_no_violations_no_change.

Require Import Phases PhasesProofs.

(* a rule that cannot repair leaves its report as it was: what it still reports after its "fix" are exactly
   violations it is unable to repair *)
Theorem C10_unfixable_fixes_nothing : forall V (line : V -> nat) d r (vs : list V),
  rfixable r = false -> fixed_violations line d r vs = [].
Proof. intros V. exact (@unfixable_fixes_nothing V). Qed.
Print Assumptions C10_unfixable_fixes_nothing.

(* the second fix is offered exactly the violations the first one was offered *)
Theorem C10_fix_selection_idempotent : forall V (line : V -> nat) d r (vs : list V),
  fixed_violations line d r (fixed_violations line d r vs) = fixed_violations line d r vs.
Proof. intros V. exact (@fix_selection_idempotent V). Qed.
Print Assumptions C10_fix_selection_idempotent.
