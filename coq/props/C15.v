(* C15: a file's result does not depend on jobs, order, neighbours. Statements only (scheduler half; the purity
   of apply_rules across files in one process is explored by the correspondence check, not proved). *)
Require Import List Bool Arith Permutation.
Import ListNotations.
Require Import Jobs JobsProofs.

Theorem C15_results_independent : forall F R (f : F -> R) stop files order,
  (forall i, i < length files -> In i order) ->
  main_pool F R f stop files order = main_seq F R f stop files.
Proof. exact results_independent. Qed.
Print Assumptions C15_results_independent.

Theorem C15_results_independent_perm : forall F R (f : F -> R) stop files order,
  Permutation order (seq 0 (length files)) ->
  main_pool F R f stop files order = main_seq F R f stop files.
Proof. exact results_independent_perm. Qed.
Print Assumptions C15_results_independent_perm.

Theorem C15_no_stop_all : forall F R (f : F -> R) stop files,
  forallb (fun x => negb (stop (f x))) files = true -> main_seq F R f stop files = map f files.
Proof. exact no_stop_all. Qed.
Print Assumptions C15_no_stop_all.

Theorem C15_exit_status_or : forall R (status : R -> bool) rs,
  exit_status R status rs = true <-> exists x, In x rs /\ status x = true.
Proof. exact exit_status_or. Qed.
Print Assumptions C15_exit_status_or.

Theorem C15_entry_is_single_run : forall F R (f : F -> R) stop files i r,
  nth_error (main_seq F R f stop files) i = Some r ->
  exists x, nth_error files i = Some x /\ r = f x /\ main_seq F R f stop [x] = [r].
Proof. exact entry_is_single_run. Qed.
Print Assumptions C15_entry_is_single_run.

Theorem C15_neighbours_irrelevant : forall F R (f : F -> R) stop files files' i r r',
  nth_error files i = nth_error files' i ->
  nth_error (main_seq F R f stop files) i = Some r ->
  nth_error (main_seq F R f stop files') i = Some r' -> r = r'.
Proof. exact neighbours_irrelevant. Qed.
Print Assumptions C15_neighbours_irrelevant.

Theorem C15_output_in_command_line_order : forall F R (f : F -> R) stop files, exists rest,
  map f files = main_seq F R f stop files ++ rest /\
  (rest <> [] -> existsb stop (main_seq F R f stop files) = true).
Proof. exact seq_is_prefix_in_order. Qed.
Print Assumptions C15_output_in_command_line_order.

Theorem C15_exit_status_order_free : forall R (status : R -> bool) rs rs',
  Permutation rs rs' -> exit_status R status rs = exit_status R status rs'.
Proof. exact exit_status_perm. Qed.
Print Assumptions C15_exit_status_order_free.
