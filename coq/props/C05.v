(* C05: token classification does not depend on layout, comments or letter case. Statements only.
   Partial: the theorem is about programs written against the cursor primitives; that the real classifier is such
   a program is checked syntactically and sampled behaviourally. *)
Require Import List NArith Bool Arith.
Import ListNotations.
Require Import Tokenizer Navigation NavigationProofs.

(* what the primitives can see of the list from a cursor is the stream of folded raw values ahead: the concrete
   execution of any classifier program is determined by it *)
Theorem C05_exec_simulates : forall p l i acc, aexec p (alpha l i) acc <> Stuck ->
  exec p l i acc = aexec p (alpha l i) acc.
Proof. exact exec_simulates. Qed.
Print Assumptions C05_exec_simulates.

(* inserting, removing or resizing skippable tokens and changing letter case leaves that stream unchanged ... *)
Theorem C05_relayout_alpha : forall l l', relayout l l' -> alpha l 0 = alpha l' 0.
Proof. exact relayout_alpha. Qed.
Print Assumptions C05_relayout_alpha.

(* ... so every classifier program assigns the same roles to the same code tokens, and rejects one re-layout iff
   it rejects the other *)
Theorem C05_classifier_relayout_invariant : forall p l l', relayout l l' ->
  aexec p (alpha l 0) [] <> Stuck -> exec p l 0 [] = exec p l' 0 [].
Proof. exact classifier_relayout_invariant. Qed.
Print Assumptions C05_classifier_relayout_invariant.

Theorem C05_relayout_symmetric : forall l l', relayout l l' -> relayout l' l.
Proof. exact relayout_sym. Qed.
Print Assumptions C05_relayout_symmetric.

Theorem C05_classifier_relayout_invariant_rev : forall p l l', relayout l l' ->
  aexec p (alpha l' 0) [] <> Stuck -> exec p l 0 [] = exec p l' 0 [].
Proof. exact classifier_relayout_invariant_rev. Qed.
Print Assumptions C05_classifier_relayout_invariant_rev.
