(* C02: comments, pragmas and preprocessor lines survive fixing verbatim. Statements only. *)
Require Import List NArith Bool Arith.
Import ListNotations.
Require Import Tokenizer Splice SpliceProofs Equiv EquivProofs.

Theorem C02_run : forall steps l, run_ok c02_edit_ok l steps = true -> comments (run l steps) = comments l.
Proof. exact C02_run. Qed.
Print Assumptions C02_run.

(* when the allow-listed comment removers fire: what is left is a subsequence, in the original order *)
Theorem C02_run_with_removers : forall steps l,
  run_ok (fun old new => c02_edit_ok old new || c02_edit_removes old new) l steps = true ->
  Sub (comments (run l steps)) (comments l).
Proof. exact C02_run_with_removers. Qed.
Print Assumptions C02_run_with_removers.
