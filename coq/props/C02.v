(* C02: comments, pragmas and preprocessor lines survive fixing verbatim. Statements only. *)
Require Import List NArith Bool Arith.
Import ListNotations.
Require Import Tokenizer Splice SpliceProofs Equiv EquivProofs.

Theorem C02_run : forall steps l, run_ok c02_edit_ok l steps = true -> comments (run l steps) = comments l.
Proof. exact C02_run. Qed.
Print Assumptions C02_run.

(* when the allow-listed comment removers fire: what is left is a subsequence, in the original order *)
Theorem C02_run_with_removers : forall steps l,
  run_ok (fun old new => c02_edit_ok old new || c02_edit_removes old new) l steps = true ->
  Sub (comments (run l steps)) (comments l).
Proof. exact C02_run_with_removers. Qed.
Print Assumptions C02_run_with_removers.

Require Import Phases FullRun.
Theorem C02_full_run : forall edits_of norm rules fix_phase skip l,
  (forall l', comments (norm l') = comments l') ->
  events_ok edits_of norm c02_edit_ok l (fix_events rules fix_phase skip) = true ->
  comments (full_run edits_of norm rules fix_phase skip l) = comments l.
Proof.
  intros edits_of norm rules fp skip l Hn H.
  apply (full_run_preserves edits_of norm _ comments) with (ok := c02_edit_ok); auto.
  - intros a b. unfold comments. now rewrite filter_app, map_app.
  - intros a b. apply strs_eqb_eq.
Qed.
Print Assumptions C02_full_run.

Require Import Trace TrailProofs.
(* removers of trailing comments (component / instantiation port and generic lists): an edit that passes the
   checker's obligation keeps, in order, every comment of the replaced slice that stands on a line of its own *)
Theorem C02_trailing_removers_keep_own_line_comments : forall l e, edit_trailing l e = true ->
  Sub (own_lines (rev (firstn (e_start e) l)) (slice l (e_start e) (e_stop e))) (comments (e_new e)).
Proof. exact edit_trailing_keeps_own_line_comments. Qed.
Print Assumptions C02_trailing_removers_keep_own_line_comments.
