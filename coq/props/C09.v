(* C09: fixing converges. Statements only: the decomposition used by the check. *)
Require Import List NArith Bool Arith.
Import ListNotations.
Require Import Splice SpliceProofs Equiv EquivProofs Phases PhasesProofs.

(* a run in which no rule has a violation to fix performs only empty updates and leaves the token list as it is *)
Theorem C09_clean_is_fixpoint : forall A (l : list A) n,
  fold_left (fun l es => update l es) (repeat (@nil (edit A)) n) l = l.
Proof. intros A. exact (@run_no_violations A). Qed.
Print Assumptions C09_clean_is_fixpoint.

(* a rule without selected violations fixes nothing *)
Theorem C09_no_selection_no_fix : forall V (line : V -> nat) r (vs : list V),
  fixed_violations line (Some []) r vs = [].
Proof. intros V. exact (@fix_only_empty_is_identity V). Qed.
Print Assumptions C09_no_selection_no_fix.

Require Import Tokenizer Lines LinesProofs.
(* the trailing-whitespace normaliser of rule_list.fix leaves a list alone in which no whitespace token sits
   directly in front of a carriage return - the shape of every re-read file *)
Theorem C09_trailing_whitespace_noop : forall l, ws_before_cr_free l ->
  (match l with t :: _ => is_cr t = true -> is_ws (last l t) = false | [] => True end) ->
  fix_trailing_whitespace l = l.
Proof. exact fix_trailing_whitespace_noop. Qed.
Print Assumptions C09_trailing_whitespace_noop.

Require Import TokenizerProofs Symbols Inst Shape ShapeProofs NormProofs.
(* both normalisers of rule_list.fix (after phase 1) are the identity on a list in which every blank_line object is
   alone on its line, no inner line is empty and no whitespace ends a line: the second fix run starts from such a
   list when the first left no trailing whitespace, so its normalisation step changes nothing *)
Theorem C09_normalisers_identity_on_clean : forall l,
  alone_from true l = true -> no_cr_cr l = true -> no_ws_cr l = true ->
  (match l with t :: _ => is_cr t = true -> is_ws (last l t) = false | [] => True end) ->
  normalise_toks l = l.
Proof. exact normalisers_identity_on_clean. Qed.
Print Assumptions C09_normalisers_identity_on_clean.

(* "running the normalisers twice equals running them once" is false of the faithful model without a hypothesis:
   of two adjacent whitespace objects at the end of a line each run removes one (known finding: adjacent
   whitespace tokens after concurrent_012 / sequential_009 / constant_016 make a second --fix change the file) *)
Theorem C09_normalise_idempotent_refuted : exists l, normalise_toks (normalise_toks l) <> normalise_toks l.
Proof. exact normalise_idempotent_refuted. Qed.
Print Assumptions C09_normalise_idempotent_refuted.

(* ... in particular on what the reader returns for a text without whitespace at the end of a line (C08_read_has_shape
   gives the shape): the normalisation step of a second fix run is the identity *)
Theorem C09_second_run_normalisation_is_identity : forall ls l,
  vsg_read ls = Some l -> no_ws_cr l = true -> normalise_toks l = l.
Proof.
  intros ls l H Hw. apply normalisers_identity_on_reader_shape; [|exact Hw].
  revert H. apply read_shape.
Qed.
Print Assumptions C09_second_run_normalisation_is_identity.
