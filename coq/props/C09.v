(* C09: fixing converges. Statements only: the decomposition used by the check. *)
Require Import List NArith Bool Arith.
Import ListNotations.
Require Import Splice SpliceProofs Equiv EquivProofs Phases PhasesProofs.

(* a run in which no rule has a violation to fix performs only empty updates and leaves the token list as it is *)
Theorem C09_clean_is_fixpoint : forall A (l : list A) n,
  fold_left (fun l es => update l es) (repeat (@nil (edit A)) n) l = l.
Proof. intros A. exact (@run_no_violations A). Qed.
Print Assumptions C09_clean_is_fixpoint.

(* a rule without selected violations fixes nothing *)
Theorem C09_no_selection_no_fix : forall V (line : V -> nat) r (vs : list V),
  fixed_violations line (Some []) r vs = [].
Proof. intros V. exact (@fix_only_empty_is_identity V). Qed.
Print Assumptions C09_no_selection_no_fix.
