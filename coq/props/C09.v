(* C09: fixing converges. Statements only: the decomposition used by the check. *)
Require Import List NArith Bool Arith.
Import ListNotations.
Require Import Splice SpliceProofs Equiv EquivProofs Phases PhasesProofs.

(* a run in which no rule has a violation to fix performs only empty updates and leaves the token list as it is *)
Theorem C09_clean_is_fixpoint : forall A (l : list A) n,
  fold_left (fun l es => update l es) (repeat (@nil (edit A)) n) l = l.
Proof. intros A. exact (@run_no_violations A). Qed.
Print Assumptions C09_clean_is_fixpoint.

(* a rule without selected violations fixes nothing *)
Theorem C09_no_selection_no_fix : forall V (line : V -> nat) r (vs : list V),
  fixed_violations line (Some []) r vs = [].
Proof. intros V. exact (@fix_only_empty_is_identity V). Qed.
Print Assumptions C09_no_selection_no_fix.

Require Import Tokenizer Lines LinesProofs.
(* the trailing-whitespace normaliser of rule_list.fix leaves a list alone in which no whitespace token sits
   directly in front of a carriage return - the shape of every re-read file *)
Theorem C09_trailing_whitespace_noop : forall l, ws_before_cr_free l ->
  (match l with t :: _ => is_cr t = true -> is_ws (last l t) = false | [] => True end) ->
  fix_trailing_whitespace l = l.
Proof. exact fix_trailing_whitespace_noop. Qed.
Print Assumptions C09_trailing_whitespace_noop.
