(* C12: configuration is obeyed with the documented precedence. Statements only. *)
Require Import List Bool Arith.
Import ListNotations.
Require Import Config ConfigProofs.

(* what applying one entry at one level does to an attribute: the last assignment of the entry, if the level's
   membership test lets it through; the membership test itself is unchanged by the level *)
Theorem C12_level_spec : forall SEV sevlist applies, stable applies -> sev_blind sevlist applies ->
  forall a e, a <> SEV -> forall o,
  let o' := fold_left (assign SEV sevlist applies) e o in
  get_key a (o_dict o') = (match last_assoc a e with
                           | Some v => if applies o a then Some v else get_key a (o_dict o)
                           | None => get_key a (o_dict o) end)
  /\ (forall k, applies o' k = applies o k).
Proof. exact fold_assign_spec. Qed.
Print Assumptions C12_level_spec.

Theorem C12_global_level_spec : forall SEV sevlist sec o a, a <> SEV ->
  get_key a (o_dict (configure_global SEV sevlist sec o)) =
  match s_global sec with
  | Some e => match last_assoc a e with Some v => if in_conf o a then Some v else get_key a (o_dict o) | None => get_key a (o_dict o) end
  | None => get_key a (o_dict o)
  end.
Proof. exact global_level_spec. Qed.
Print Assumptions C12_global_level_spec.

(* the most specific level is applied last: whatever global, group or an earlier pass (main configuration before
   file_list before file_rules) did, the rule's own entry decides *)
Theorem C12_rule_level_wins : forall SEV sevlist sec o a v e, a <> SEV ->
  lookup (o_uid o) (s_rules sec) = Some e -> last_assoc a e = Some v -> in_dict o a = true ->
  get_key a (o_dict (configure_rule SEV sevlist sec o)) = Some v.
Proof. exact rule_level_wins. Qed.
Print Assumptions C12_rule_level_wins.

Theorem C12_untouched_rule_unchanged : forall SEV sevlist sec o,
  s_global sec = None -> s_group sec = None -> lookup (o_uid o) (s_rules sec) = None ->
  rule_configure SEV sevlist sec o = Some o.
Proof. exact untouched_rule_unchanged. Qed.
Print Assumptions C12_untouched_rule_unchanged.

Theorem C12_unknown_rule_rejected : forall SEV sevlist sec rules uid e,
  In (uid, e) (s_rules sec) -> ~ In uid (map o_uid rules) -> rl_configure SEV sevlist (Some sec) rules = CError.
Proof. exact unknown_rule_rejected. Qed.
Print Assumptions C12_unknown_rule_rejected.

Theorem C12_deprecated_rule_rejected : forall SEV sevlist sec rules o e,
  In o rules -> o_deprecated o = true -> lookup (o_uid o) (s_rules sec) = Some e ->
  rl_configure SEV sevlist (Some sec) rules = CError.
Proof. exact deprecated_rule_rejected. Qed.
Print Assumptions C12_deprecated_rule_rejected.

(* later configuration files override earlier ones (and the style), rule entry by rule entry *)
Theorem C12_later_file_wins : forall a b uid, NoDup (map fst (s_rules b)) ->
  lookup uid (s_rules (merge_section a b)) =
  match lookup uid (s_rules b) with Some e => Some e | None => lookup uid (s_rules a) end.
Proof. exact later_file_wins. Qed.
Print Assumptions C12_later_file_wins.
