(* Model of the write-back of a fixed file: apply_rules.write_vhdl_file and create_backup_file over an abstract
   file system with crashes and failing OS calls, and the early returns of apply_rules that precede it. *)
From Coq Require Import List Bool Arith Lia.
Import ListNotations.

Section FS.
Variable content : Type.                     (* file contents *)
Variable empty : content.

Record file := mkfile { data : content; mode : nat }.
Record fs := mkfs { target : option file; tmp : option file; bak : option file }.

(* what happens at one OS call *)
Inductive outcome :=
| Ok
| Crash                      (* the process is killed before the call takes effect *)
| CrashMid (part : content)  (* killed in the middle of a write: [part] reached the disk *)
| PermErr                    (* PermissionError *)
| OsErr                      (* any other OSError, e.g. ENOSPC *)
| OsErrMid (part : content). (* the write fails after [part] reached the disk *)

Inductive result := Returned | RaisedOut | Killed.

(* the steps of write_vhdl_file in program order *)
Inductive step := SStat | SOpen | SWrite | SClose | SChmod | SReplace | SRemove.

Variable sched : step -> outcome.
Variable defmode : nat.       (* mode a newly created file gets (umask dependent) *)

Definition set_tmp (s : fs) (t : option file) : fs := mkfs (target s) t (bak s).

(* finally: os.remove(tmpfile); FileNotFoundError is swallowed *)
Definition do_remove (s : fs) (pending : result) : fs * result :=
  match sched SRemove with
  | Ok => (set_tmp s None, pending)
  | Crash | CrashMid _ => (s, Killed)
  | PermErr | OsErr | OsErrMid _ => (s, RaisedOut)     (* raised inside finally: propagates *)
  end.

(* an exception inside the try block: PermissionError is caught (message printed), others propagate; the
   finally clause runs in both cases *)
Definition fail_in_try (s : fs) (o : outcome) : fs * result :=
  match o with
  | PermErr => do_remove s Returned
  | OsErr | OsErrMid _ => do_remove s RaisedOut
  | _ => (s, Killed)
  end.

Definition write_vhdl_file (s : fs) (fixed : content) : fs * result :=
  match target s with
  | None => (s, RaisedOut)                          (* os.stat raises FileNotFoundError, outside the try *)
  | Some orig =>
    match sched SStat with
    | Crash | CrashMid _ => (s, Killed)
    | PermErr | OsErr | OsErrMid _ => (s, RaisedOut)  (* outside the try block: propagates, nothing touched *)
    | Ok =>
      match sched SOpen with
      | Ok =>
        (* open(tmp, "w"): create with the default mode or truncate keeping the existing mode *)
        let m := match tmp s with Some t => mode t | None => defmode end in
        let s1 := set_tmp s (Some (mkfile empty m)) in
        match sched SWrite with
        | Ok =>
          let s2 := set_tmp s1 (Some (mkfile fixed m)) in
          match sched SClose with
          | Ok =>
            match sched SChmod with
            | Ok =>
              let s3 := set_tmp s2 (Some (mkfile fixed (mode orig))) in
              match sched SReplace with
              | Ok => do_remove (mkfs (tmp s3) None (bak s3)) Returned      (* os.replace: atomic rename *)
              | o => fail_in_try s3 o
              end
            | o => fail_in_try s2 o
            end
          | o => fail_in_try s2 o
          end
        | CrashMid part => (set_tmp s1 (Some (mkfile part m)), Killed)
        | OsErrMid part => fail_in_try (set_tmp s1 (Some (mkfile part m))) OsErr
        | o => fail_in_try s1 o
        end
      | o => fail_in_try s o
      end
    end
  end.

(* create_backup_file: shutil.copy2(file, file + ".bak"), before anything is fixed *)
Inductive bstep_outcome := BOk | BCrashMid (part : content) | BFail.
Definition create_backup (s : fs) (o : bstep_outcome) : fs * result :=
  match target s with
  | None => (s, RaisedOut)
  | Some orig =>
    match o with
    | BOk => (mkfs (target s) (tmp s) (Some orig), Returned)
    | BCrashMid part => (mkfs (target s) (tmp s) (Some (mkfile part defmode)), Killed)
    | BFail => (s, RaisedOut)
    end
  end.

(* apply_rules around it: a file that fails to parse or configure returns before any file-system call; a rule
   raising during the in-memory fix propagates before the write; the file is written only if something was fixed *)
Inductive pre := ParseError | ConfigError | RuleRaises | Fixed (had_violations : bool).
Definition apply_rules_fs (s : fs) (p : pre) (backup : option bstep_outcome) (fixed : content) : fs * result :=
  match p with
  | ParseError | ConfigError => (s, Returned)
  | RuleRaises | Fixed _ =>
    let '(s1, r1) := match backup with Some o => create_backup s o | None => (s, Returned) end in
    match r1 with
    | Returned =>
      match p with
      | Fixed true => write_vhdl_file s1 fixed
      | Fixed false => (s1, Returned)
      | _ => (s1, RaisedOut)
      end
    | r => (s1, r)
    end
  end.
End FS.
