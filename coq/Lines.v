(* Model of the line level of reading and emitting a file:
     vhdlFile._processFile (line loop), classify/blank.py, whitespace.py, comment.py, preprocessor.py,
     vhdlFile.split_on_carriage_return / get_lines, utils.fix_blank_lines / fix_trailing_whitespace.
   pragma.classify and design_file.tokenize only re-class objects one-for-one keeping the value; they are
   covered by [reclass] (any kind-changing, value-preserving map that keeps carriage returns apart). *)
From Coq Require Import List NArith Bool Arith Lia.
Import ListNotations.
Require Import Tokenizer.

Inductive kind := KItem | KWs | KComment | KDBegin | KDText | KDEnd | KPrep | KBlank | KCr.
Record tok := mk { tk : kind; tv : str }.

Definition kind_eqb (a b : kind) : bool :=
  match a, b with
  | KItem, KItem | KWs, KWs | KComment, KComment | KDBegin, KDBegin | KDText, KDText
  | KDEnd, KDEnd | KPrep, KPrep | KBlank, KBlank | KCr, KCr => true
  | _, _ => false
  end.

Definition is_cr (t : tok) : bool := kind_eqb (tk t) KCr.
Definition is_ws (t : tok) : bool := kind_eqb (tk t) KWs.
Definition is_text (t : tok) : bool := kind_eqb (tk t) KDText.

Definition has_c (c : chr) (s : str) : bool := existsb (N.eqb c) s.
Definition first_last_is (q : chr) (s : str) : bool :=
  match s with [] => false | c :: _ => N.eqb c q && N.eqb (last s 0%N) q end.

(* whitespace.classify *)
Definition ws_kind (s : str) : bool :=
  if has_c 32%N s then negb (first_last_is 34%N s) && negb (first_last_is 39%N s) else has_c 9%N s.

Definition starts2 (a b : chr) (s : str) : bool :=
  match s with x :: y :: _ => N.eqb x a && N.eqb y b | _ => false end.
Definition starts1 (a : chr) (s : str) : bool := match s with x :: _ => N.eqb x a | _ => false end.
Definition ends_star (s : str) : bool := match rev s with c :: _ => N.eqb c 42%N | [] => false end.

Definition DASH : chr := 45%N.
Definition s_open : str := [47; 42]%N.   (* "/*" *)
Definition s_close : str := [42; 47]%N.  (* "*/" *)
Definition s_slash : str := [47]%N.

(* comment.classify main loop.  [done] is the processed prefix reversed, [rest] what is left.
   The loop index is > 0 exactly when [done] is non-empty (ending_token_should_exist guards iToken > 0). *)
Fixpoint cc (inside : bool) (done : list tok) (rest : list tok) : list tok * bool :=
  match rest with
  | [] => (rev done, inside)
  | t :: r =>
      let t1 := if inside then mk KDText (tv t) else t in
      if negb inside && starts2 DASH DASH (tv t1) then
        let lastv := tv (last r t1) in
        let mid := if s_isspace lastv then removelast r else r in
        let tail := if s_isspace lastv then [last r t1] else [] in
        (rev done ++ mk KComment (tv t1 ++ concat (map tv mid)) :: tail, inside)
      else
        let opening := negb inside && str_eqb (tv t1) s_open in
        let t2 := if opening then mk KDBegin (tv t1) else t1 in
        let inside2 := inside || opening in
        if inside2 && str_eqb (tv t2) s_close then cc false (mk KDEnd (tv t2) :: done) r
        else
          match done with
          | p :: d =>
              if inside2 && str_eqb (tv t2) s_slash && ends_star (tv p)
              then cc false (mk KDEnd s_close :: mk KDText (removelast (tv p)) :: d) r
              else cc inside2 (t2 :: done) r
          | [] => cc inside2 (t2 :: done) r
          end
  end.

(* merge_text_tokens: everything between the first and the last text token becomes one text token *)
Fixpoint first_text (l : list tok) (i : nat) : option nat :=
  match l with [] => None | t :: r => if is_text t then Some i else first_text r (S i) end.
Fixpoint last_text (l : list tok) (i : nat) (acc : option nat) : option nat :=
  match l with [] => acc | t :: r => last_text r (S i) (if is_text t then Some i else acc) end.
Definition merge_text (l : list tok) : list tok :=
  match first_text l 0, last_text l 0 None with
  | Some a, Some b =>
      if Nat.ltb a b then
        firstn a l ++ mk KDText (concat (map tv (firstn (S b - a) (skipn a l)))) :: skipn (S b) l
      else l
  | _, _ => l
  end.

(* preprocessor.classify *)
Definition prep_line (toks : list str) : bool :=
  match toks with
  | a :: r => starts1 35%N a || (starts1 32%N a && match r with b :: _ => starts1 35%N b | [] => false end)
  | [] => false
  end.

(* one line: blank, whitespace, comment, preprocessor *)
Definition classify_line (inside : bool) (toks : list str) : list tok * bool :=
  let objs0 := map (fun s => mk (if ws_kind s then KWs else KItem) s) toks in
  let objs1 := match toks with
               | [] => if inside then [mk KDText []] else [mk KBlank []]
               | _ => objs0 end in
  let '(objs2, inside') := match toks with [] => (objs1, inside) | _ => cc inside [] objs1 end in
  let objs3 := merge_text objs2 in
  let objs4 := if prep_line toks then [mk KPrep (concat toks)] else objs3 in
  (objs4, inside').

Definition CR : tok := mk KCr [10%N].

Section Read.
Variable tokenize : str -> option (list str).

Fixpoint read_lines (inside : bool) (ls : list str) : option (list tok) :=
  match ls with
  | [] => Some []
  | l :: r =>
      match tokenize l with
      | None => None
      | Some toks =>
          let '(objs, inside') := classify_line inside toks in
          match read_lines inside' r with
          | None => None
          | Some rest => Some (objs ++ CR :: rest)
          end
      end
  end.
Definition read (ls : list str) := read_lines false ls.
End Read.

(* vhdlFile.split_on_carriage_return / get_lines *)
Fixpoint split_cr (l : list tok) (cur : list tok) : list (list tok) :=
  match l with
  | [] => match cur with [] => [] | _ => [rev cur] end
  | t :: r => if is_cr t then rev cur :: split_cr r [] else split_cr r (t :: cur)
  end.
Definition line_text (l : list tok) : str := concat (map tv l).
Definition get_lines (l : list tok) : list str := [] :: map line_text (split_cr l []).

(* value-preserving, one-for-one re-classification (pragma.classify, design_file.tokenize, post passes) *)
Definition reclass (l l' : list tok) : Prop :=
  Forall2 (fun a b => tv a = tv b /\ is_cr a = is_cr b) l l'.

(* utils.fix_blank_lines; python's lTokens[iToken-1] at 0 is the last element, lTokens[iToken+1] past the end
   raises IndexError, caught: modelled by the option results of [nth_error]. *)
Definition kind_at (l : list tok) (i : nat) : option kind := option_map tk (nth_error l i).
Definition okind_is (o : option kind) (k : kind) : bool := match o with Some x => kind_eqb x k | None => false end.

Fixpoint fbl (all : list tok) (prev : option kind) (l : list tok) : list tok :=
  match l with
  | [] => []
  | t :: r =>
      let next := match r with n :: _ => Some (tk n) | [] => None end in
      if kind_eqb (tk t) KCr && okind_is next KCr then t :: mk KBlank [] :: fbl all (Some (tk t)) r
      else if okind_is prev KCr && kind_eqb (tk t) KWs && okind_is next KCr then mk KBlank [] :: fbl all (Some (tk t)) r
      else t :: fbl all (Some (tk t)) r
  end.
(* utils.remove_blank_line_tokens_from_lines_with_content (first pass of fix_blank_lines): a blank_line object
   that is not alone on its line is dropped. [prev_cr]: the previous object *of the input* is a carriage return
   (true at index 0); past the end counts as a carriage return. *)
Fixpoint drop_stale (prev_cr : bool) (l : list tok) : list tok :=
  match l with
  | [] => []
  | t :: r =>
      let next_cr := match r with n :: _ => is_cr n | [] => true end in
      if kind_eqb (tk t) KBlank && negb (prev_cr && next_cr) then drop_stale (is_cr t) r
      else t :: drop_stale (is_cr t) r
  end.
Definition fix_blank_lines (l : list tok) : list tok :=
  let l' := drop_stale true l in
  fbl l' (option_map tk (nth_error l' (length l' - 1))) l'.

(* utils.fix_trailing_whitespace: at a carriage return whose predecessor *in the input* is whitespace,
   pop the last element of the output *)
Fixpoint ftw (prev : option kind) (out : list tok) (l : list tok) : list tok :=
  match l with
  | [] => rev out
  | t :: r =>
      if kind_eqb (tk t) KCr && okind_is prev KWs then ftw (Some (tk t)) (t :: tl out) r
      else ftw (Some (tk t)) (t :: out) r
  end.
Definition fix_trailing_whitespace (l : list tok) : list tok :=
  ftw (option_map tk (nth_error l (length l - 1))) [] l.
