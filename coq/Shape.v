(* The shape of what the reader can produce (vhdlFile._processFile, classify/blank.py, whitespace.py):
   every line of the object list holds at least one object, a blank_line object is alone on its line, and a
   whitespace object is never empty.  A list that emitting and reading reproduces must have this shape
   (ShapeProofs.reread_requires_shape), so the first rule application after which the shape is lost is the one that
   made the in-memory model differ from what VSG would read from its own output. *)
From Coq Require Import List NArith Bool Arith.
Import ListNotations.
Require Import Tokenizer Lines.

Definition is_blank (t : tok) : bool := kind_eqb (tk t) KBlank.

(* one line (the objects between two carriage returns) *)
Definition line_ok (objs : list tok) : bool :=
  match objs with
  | [] => false
  | [_] => true
  | _ => negb (existsb is_blank objs)
  end.

Definition ws_nonempty (t : tok) : bool := negb (is_ws t && match tv t with [] => true | _ => false end).

Definition shape (l : list tok) : bool := forallb line_ok (split_cr l []) && forallb ws_nonempty l.

(* two code objects with nothing between them in the text whose junction forms another lexical element:
   two word characters (library + ieee -> libraryieee) or a compound delimiter / comment opener *)
Definition c_word (c : chr) : bool :=
  (N.leb 48 c && N.leb c 57) || (N.leb 65 c && N.leb c 90) || (N.leb 97 c && N.leb c 122) || N.eqb c 95.
Definition compound (a b : chr) : bool :=
  match a, b with
  | 60, 61 | 58, 61 | 61, 62 | 47, 61 | 62, 61 | 42, 42 | 60, 62 | 45, 45 | 60, 60 | 62, 62 | 63, 61 | 63, 47 | 63, 60 | 63, 62 | 63, 63 | 47, 42 | 42, 47 => true
  | _, _ => false
  end%N.
Definition junction_bad (a b : str) : bool :=
  match rev a, b with
  | x :: _, y :: _ => (c_word x && c_word y) || compound x y
  | _, _ => false
  end.
