From Coq Require Import List NArith Bool Arith Lia.
Import ListNotations.
Require Import Tokenizer CodeTags.

Lemma str_eqb_refl a : str_eqb a a = true.
Proof. unfold str_eqb. destruct (list_eq_dec N.eq_dec a a); congruence. Qed.
Lemma str_eqb_true a b : str_eqb a b = true <-> a = b.
Proof. unfold str_eqb. destruct (list_eq_dec N.eq_dec a b); split; congruence. Qed.
Lemma str_eqb_false a b : str_eqb a b = false <-> a <> b.
Proof. unfold str_eqb. destruct (list_eq_dec N.eq_dec a b); split; congruence. Qed.

Lemma mem_In t l : mem t l = true <-> In t l.
Proof.
  unfold mem. rewrite existsb_exists. split.
  - intros (x & Hx & E). apply str_eqb_true in E. now subst.
  - intros H. exists t. split; [assumption|apply str_eqb_refl].
Qed.

Lemma mem_app t a b : mem t (a ++ b) = mem t a || mem t b.
Proof. unfold mem. apply existsb_app. Qed.

Lemma mem_add t i l : mem t l = true -> mem t (add i l) = true.
Proof. unfold add. destruct (mem i l); [auto|]. intros H. now rewrite mem_app, H. Qed.
Lemma mem_add_self i l : mem i (add i l) = true.
Proof. unfold add. destruct (mem i l) eqn:E; [exact E|]. rewrite mem_app. cbn. rewrite str_eqb_refl. now rewrite orb_true_r. Qed.

Lemma mem_fold_add t ids : forall l, mem t l = true -> mem t (fold_left (fun l i => add i l) ids l) = true.
Proof. induction ids as [|i r IH]; cbn; intros l H; [exact H|]. apply IH. now apply mem_add. Qed.
Lemma mem_fold_add_in t ids : forall l, In t ids -> mem t (fold_left (fun l i => add i l) ids l) = true.
Proof.
  induction ids as [|i r IH]; cbn; intros l H; [tauto|]. destruct H as [->|H].
  - apply mem_fold_add. apply mem_add_self.
  - now apply IH.
Qed.

Lemma mem_remove1 t i l : i <> t -> mem t l = true -> mem t (remove1 i l) = true.
Proof.
  intros Hne. induction l as [|x r IH]; cbn; [auto|].
  destruct (str_eqb i x) eqn:E.
  - apply str_eqb_true in E. subst x. destruct (str_eqb t i) eqn:E2; [apply str_eqb_true in E2; congruence|]. cbn. auto.
  - cbn. destruct (str_eqb t x); cbn; auto.
Qed.
Lemma mem_fold_remove t ids : forall l, mem t ids = false -> mem t l = true ->
  mem t (fold_left (fun l i => remove1 i l) ids l) = true.
Proof.
  induction ids as [|i r IH]; cbn; intros l Hn H; [exact H|].
  apply orb_false_iff in Hn. destruct Hn as [Hi Hr].
  apply IH; [exact Hr|]. apply mem_remove1; [|exact H].
  apply str_eqb_false in Hi. congruence.
Qed.

(* ---- running the machine ---- *)
Definition run (s : st) (l : list cmd) : st := fold_left update l s.

Lemma stamp_cmds_app a : forall s b, stamp_cmds s (a ++ b) = stamp_cmds s a ++ stamp_cmds (run s a) b.
Proof.
  induction a as [|c r IH]; intros s b; [reflexivity|].
  cbn [app stamp_cmds run fold_left]. destruct c; cbn [app]; now rewrite IH.
Qed.
Lemma stamp_cmds_length l : forall s, length (stamp_cmds s l) = length l.
Proof. induction l as [|c r IH]; intros s; [reflexivity|]. cbn [stamp_cmds]. destruct c; cbn; now rewrite IH. Qed.

(* a command that can end the suppression of rule [r]: bare vsg_on, or vsg_on naming r or "all" *)
Definition releases (r : tag) (c : cmd) : bool :=
  match c with KOn true _ => true | KOn false ids => mem r ids || mem ALL ids | _ => false end.

Lemma update_keeps r s c : releases r c = false ->
  has_code_tag (tags s) r = true -> has_code_tag (tags (update s c)) r = true.
Proof.
  unfold has_code_tag. intros Hc H. destruct c as [|b ids|b ids|ids|]; cbn [update].
  - destruct (ignore_cr s); exact H.
  - destruct b; [discriminate|]. cbn in Hc. apply orb_false_iff in Hc. destruct Hc as [Hr Ha]. cbn [tags].
    apply orb_true_iff in H. apply orb_true_iff. destruct H as [H|H]; [left|right]; now apply mem_fold_remove.
  - destruct b; cbn [tags]; [reflexivity|].
    apply orb_true_iff in H. apply orb_true_iff. destruct H as [H|H]; [left|right]; now apply mem_fold_add.
  - exact H.
  - exact H.
Qed.

Lemma has_get_tags s r : has_code_tag (tags s) r = true -> has_code_tag (get_tags s) r = true.
Proof.
  unfold has_code_tag, get_tags. rewrite !mem_app. intros H. apply orb_true_iff in H.
  destruct H as [H|H]; rewrite H; cbn; [reflexivity|]. now rewrite !orb_true_r.
Qed.

Lemma region_suppressed r l : forall s, forallb (fun c => negb (releases r c)) l = true ->
  has_code_tag (tags s) r = true ->
  Forall (fun tl => has_code_tag tl r = true) (stamp_cmds s l).
Proof.
  induction l as [|c rest IH]; intros s Hl Hs; [constructor|].
  cbn [forallb] in Hl. apply andb_prop in Hl. destruct Hl as [Hc Hl]. apply negb_true_iff in Hc.
  pose proof (update_keeps r s c Hc Hs) as Hs'.
  cbn [stamp_cmds]. destruct c; (constructor; [now apply has_get_tags|now apply IH]).
Qed.

(* from `-- vsg_off` (bare) up to the next bare `-- vsg_on` (or one naming "all") every token carries "all" *)
Theorem all_persists pre ids mid s r :
  forallb (fun c => negb (releases r c)) mid = true ->
  Forall (fun tl => has_code_tag tl r = true) (skipn (length pre) (stamp_cmds s (pre ++ KOff true ids :: mid))).
Proof.
  intros H. rewrite stamp_cmds_app.
  rewrite skipn_app, stamp_cmds_length, Nat.sub_diag, skipn_all2 by (rewrite stamp_cmds_length; lia).
  cbn [app skipn stamp_cmds]. constructor.
  - reflexivity.
  - apply region_suppressed; [exact H|]. reflexivity.
Qed.

(* from `-- vsg_off ... r ...` up to the next `-- vsg_on` that is bare or names r (or "all") *)
Theorem named_persists pre ids mid s r : In r ids ->
  forallb (fun c => negb (releases r c)) mid = true ->
  Forall (fun tl => has_code_tag tl r = true) (skipn (length pre) (stamp_cmds s (pre ++ KOff false ids :: mid))).
Proof.
  intros Hin H. rewrite stamp_cmds_app.
  rewrite skipn_app, stamp_cmds_length, Nat.sub_diag, skipn_all2 by (rewrite stamp_cmds_length; lia).
  cbn [app skipn stamp_cmds].
  assert (Hs : has_code_tag (tags (update (run s pre) (KOff false ids))) r = true).
  { cbn. unfold has_code_tag. rewrite (mem_fold_add_in r ids _ Hin). apply orb_true_r. }
  constructor; [now apply has_get_tags|]. now apply region_suppressed.
Qed.

(* commands that add no tag *)
Definition quiet (c : cmd) : bool := match c with KOff _ _ | KNext _ => false | _ => true end.

Lemma fold_remove_nil ids : fold_left (fun l i => remove1 i l) ids [] = [].
Proof. induction ids; cbn; auto. Qed.

Lemma quiet_update s c : quiet c = true -> tags s = [] -> next_tags s = [] ->
  tags (update s c) = [] /\ next_tags (update s c) = [].
Proof.
  intros Hc Ht Hn. destruct c as [|b ids|b ids|ids|]; try discriminate; cbn [update].
  - destruct (ignore_cr s); cbn; auto.
  - destruct b; cbn; [auto|]. rewrite Ht. split; [apply fold_remove_nil|assumption].
  - auto.
Qed.

Lemma quiet_clean l : forall s, tags s = [] -> next_tags s = [] -> forallb quiet l = true ->
  Forall (fun tl => tl = []) (stamp_cmds s l).
Proof.
  induction l as [|c rest IH]; intros s Ht Hn Hq; [constructor|].
  cbn [forallb] in Hq. apply andb_prop in Hq. destruct Hq as [Hc Hq].
  assert (G : get_tags s = []) by (unfold get_tags; now rewrite Ht, Hn).
  destruct (quiet_update s c Hc Ht Hn) as [Ht' Hn'].
  destruct c; try discriminate; cbn [stamp_cmds]; (constructor; [exact G|]); now apply IH.
Qed.

(* after a bare `-- vsg_on`, until the next vsg_off / next-line tag, every token carries the empty list:
   every rule's violations there are kept *)
Theorem untagged_clean pre ids mid s : forallb quiet mid = true ->
  Forall (fun tl => tl = []) (skipn (S (length pre)) (stamp_cmds s (pre ++ KOn true ids :: mid))).
Proof.
  intros H. rewrite stamp_cmds_app.
  rewrite skipn_app, stamp_cmds_length.
  replace (S (length pre) - length pre) with 1 by lia.
  rewrite skipn_all2 by (rewrite stamp_cmds_length; lia).
  cbn [app skipn stamp_cmds]. apply quiet_clean; [reflexivity|reflexivity|exact H].
Qed.
Theorem no_tags_clean l : forallb quiet l = true -> Forall (fun tl => tl = []) (stamp_cmds st0 l).
Proof. apply quiet_clean; reflexivity. Qed.

(* next-line tags: carried by the tag comment, by the rest of its line, by the whole following line including
   its carriage return, by nothing afterwards; the machine state afterwards is as if the comment were ordinary *)
Definition others (l : list cmd) : bool := forallb (fun c => match c with KOther => true | _ => false end) l.

Lemma others_run l : forall s, others l = true -> run s l = s.
Proof. induction l as [|c r IH]; intros s H; [reflexivity|]. cbn in H. destruct c; try discriminate. cbn. now apply IH. Qed.
Lemma others_stamp l : forall s, others l = true -> stamp_cmds s l = map (fun _ => get_tags s) l.
Proof. induction l as [|c r IH]; intros s H; [reflexivity|]. cbn in H. destruct c; try discriminate. cbn. f_equal. now apply IH. Qed.

Theorem next_line_scope s ids rest1 line :
  ignore_cr s = false -> next_tags s = [] -> others rest1 = true -> others line = true ->
  let cmds := KNext ids :: rest1 ++ KCr :: line ++ [KCr] in
  let nt := fold_left (fun l i => add i l) ids [] in
  stamp_cmds s cmds = map (fun _ => tags s ++ nt) cmds /\ run s cmds = s /\
  (forall r, In r ids -> has_code_tag (tags s ++ nt) r = true).
Proof.
  intros Hi Hn H1 H2 cmds nt. subst cmds.
  destruct s as [tg nx ig]. cbn in Hi, Hn. subst ig nx.
  set (s1 := mkst tg nt true). set (s2 := mkst tg nt false).
  assert (U1 : update (mkst tg [] false) (KNext ids) = s1) by reflexivity.
  assert (U2 : update s1 KCr = s2) by reflexivity.
  assert (U3 : update s2 KCr = mkst tg [] false) by reflexivity.
  split; [|split].
  - change (stamp_cmds (mkst tg [] false) (KNext ids :: rest1 ++ KCr :: line ++ [KCr]))
      with (get_tags s1 :: stamp_cmds s1 (rest1 ++ KCr :: line ++ [KCr])).
    rewrite stamp_cmds_app, (others_stamp _ _ H1), (others_run _ _ H1).
    change (stamp_cmds s1 (KCr :: line ++ [KCr])) with (get_tags s1 :: stamp_cmds s2 (line ++ [KCr])).
    rewrite stamp_cmds_app, (others_stamp _ _ H2), (others_run _ _ H2).
    change (stamp_cmds s2 [KCr]) with [get_tags s2].
    cbn [map]. rewrite !map_app. cbn [map]. rewrite !map_app. cbn [map]. reflexivity.
  - unfold run. cbn [fold_left]. rewrite U1, fold_left_app.
    fold (run s1 rest1). rewrite (others_run _ _ H1). cbn [fold_left]. rewrite U2, fold_left_app.
    fold (run s2 line). rewrite (others_run _ _ H2). cbn [fold_left]. exact U3.
  - intros r Hr. unfold has_code_tag. rewrite !mem_app. cbn [tags].
    subst nt. rewrite (mem_fold_add_in r ids [] Hr). now rewrite !orb_true_r.
Qed.

(* Rule.add_violation keeps exactly the violations none of whose tokens is tagged for the rule *)
Theorem filter_exact {V} (toks_of : V -> list (list tag)) r vs v :
  In v (add_violations toks_of r vs) <-> In v vs /\ (forall tl, In tl (toks_of v) -> has_code_tag tl r = false).
Proof.
  unfold add_violations, violation_suppressed. rewrite filter_In, negb_true_iff. split; intros [H1 H2]; split; auto.
  - intros tl Htl. destruct (has_code_tag tl r) eqn:E; [|reflexivity].
    assert (X : existsb (fun tl => has_code_tag tl r) (toks_of v) = true) by (apply existsb_exists; eauto). congruence.
  - destruct (existsb _ _) eqn:E; [|reflexivity]. apply existsb_exists in E. destruct E as (tl & Htl & E). rewrite (H2 _ Htl) in E. discriminate.
Qed.

(* a file whose first token is a bare `-- vsg_off` and which has no releasing vsg_on: every violation that has
   at least one token is dropped, whatever the rule *)
Theorem wrapped_file_silent {V} (toks_of : V -> list (list tag)) ids rest r vs :
  forallb (fun c => negb (releases r c)) rest = true ->
  (forall v, In v vs -> toks_of v <> [] /\ incl (toks_of v) (stamp_cmds st0 (KOff true ids :: rest))) ->
  add_violations toks_of r vs = [].
Proof.
  intros Hr Hv.
  pose proof (all_persists [] ids rest st0 r Hr) as HF. cbn [length skipn app] in HF.
  rewrite Forall_forall in HF.
  unfold add_violations. induction vs as [|v vs IH]; [reflexivity|].
  cbn [filter]. destruct (Hv v (or_introl eq_refl)) as [Hne Hin].
  assert (E : violation_suppressed (toks_of v) r = true).
  { unfold violation_suppressed. destruct (toks_of v) as [|tl tls] eqn:Et; [congruence|].
    cbn. rewrite (HF tl); [reflexivity|]. apply Hin. now left. }
  rewrite E. cbn. apply IH. intros v' Hv'. apply Hv. now right.
Qed.

(* ---- the comment syntax, by computation (non-vacuity of the command forms) ---- *)
Definition cmt (s : str) := ct CComment s.
Example parse_bare_off : parse (cmt (P_OFF)) = KOff true [].
Proof. vm_compute. reflexivity. Qed.
Example parse_named_off_with_remark :
  (* "-- vsg_off a_1 b : why" *)
  parse (cmt (P_OFF ++ [32; 97; 95; 49; 32; 98; 32; 58; 32; 119; 104; 121]%N)) = KOff false [[97; 95; 49]; [98]]%N.
Proof. vm_compute. reflexivity. Qed.
Example parse_on_all : parse (cmt (P_ON ++ [32; 97; 108; 108]%N)) = KOn false [ALL].
Proof. vm_compute. reflexivity. Qed.
Example parse_next : parse (cmt (P_NEXT ++ [32; 120]%N)) = KNext [[120]%N].
Proof. vm_compute. reflexivity. Qed.
Example wrapped_example :
  stamp [cmt P_OFF; ct CCr [10]%N; ct COther [97]%N; cmt (P_OFF ++ [32; 120]%N); ct COther [98]%N]
  = [[ALL]; [ALL]; [ALL]; [ALL; [120]%N]; [ALL; [120]%N]].
Proof. vm_compute. reflexivity. Qed.
