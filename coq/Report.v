(* Model of the report projections of one file:
     rule_list.report_violations (rows, stable sort by line, counts), report/vsg_stdout, syntastic_stdout,
     summary_stdout (abstracted to their rows / verdict), rule_list.extract_junit_testcase,
     rule_list.extract_violation_dictionary, report/quality_report.build_report, and the exit status logic of
     apply_rules / __main__.main. A row is one violation of one rule. *)
From Coq Require Import List Bool Arith Lia.
Import ListNotations.

Record row := mkrow {
  r_rule : nat;       (* position of the rule in rule_list.rules *)
  r_line : nat;       (* violation.get_line_number() *)
  r_sev : nat;        (* index of the rule's severity name in the severity list (0 = "Error", 1 = "Warning") *)
  r_error : bool;     (* rule.severity.type == error_type *)
  r_sol : nat         (* identity of the solution text *)
}.

(* rules in load order, each with its violations in the order it recorded them: the rows in JSON order *)
Definition all_rows (per_rule : list (list row)) : list row := concat per_rule.

(* sorted(..., key=lineNumber): Python's sort is stable; insertion after all elements <= keeps stability *)
Fixpoint insert (x : row) (l : list row) : list row :=
  match l with
  | [] => [x]
  | y :: r => if Nat.ltb (r_line x) (r_line y) then x :: l else y :: insert x r
  end.
Definition sort_rows (l : list row) : list row := fold_left (fun acc x => insert x acc) l [].

(* report_violations: the table rows of the vsg and syntastic formats; counts *)
Definition table_rows (per_rule : list (list row)) : list row := sort_rows (all_rows per_rule).
Definition total (per_rule : list (list row)) : nat := length (table_rows per_rule).
Definition count_sev (k : nat) (rows : list row) : nat := length (filter (fun x => Nat.eqb (r_sev x) k) rows).
Definition sev_counts (nsev : nat) (per_rule : list (list row)) : list nat :=
  map (fun k => count_sev k (table_rows per_rule)) (seq 0 nsev).

(* summary_stdout: OK iff the count of severity number 0 (the one named "Error") is 0 *)
Definition summary_ok (per_rule : list (list row)) : bool := Nat.eqb (count_sev 0 (table_rows per_rule)) 0.
(* the repaired verdict: no error-type row *)
Definition summary_ok_by_type (per_rule : list (list row)) : bool :=
  negb (existsb r_error (table_rows per_rule)).

(* extract_junit_testcase: rules of error type only, in rule order *)
Definition junit_rows (per_rule : list (list row)) : list row := filter r_error (all_rows per_rule).
(* extract_violation_dictionary / quality report: every row in rule order *)
Definition json_rows (per_rule : list (list row)) : list row := all_rows per_rule.
Definition quality_critical (x : row) : bool := Nat.eqb (r_sev x) 0.

(* apply_rules: fExitStatus = oRules.violations = some analysed error-type rule has a violation; the rows passed
   here are those of the analysed rules (a rule that was not analysed has none) *)
Definition file_status (per_rule : list (list row)) : bool := existsb r_error (all_rows per_rule).

(* __main__.main: fExitStatus = fExitStatus or fStatus over the processed files; a file that fails to parse or
   configure contributes True *)
Inductive file_result := Processed (per_rule : list (list row)) | Failed.
Definition result_status (f : file_result) : bool :=
  match f with Processed p => file_status p | Failed => true end.
Definition exit_status (fs : list file_result) : bool := existsb result_status fs.
