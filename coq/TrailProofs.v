(* C02, removers of trailing comments: what the obligation [edit_trailing] of the trace checker guarantees.
   The comments (pragmas, preprocessor lines) of the replaced slice that stand on a line of their own - nothing but
   whitespace before them on their line - all survive in the replacement, in order. *)
From Coq Require Import List NArith Bool Arith.
Import ListNotations.
Require Import Tokenizer Splice Equiv EquivProofs RoleTable Lines Shape Trace.

(* the own-line comments of [l] in the context [rp] (the list before it, nearest object first) *)
Fixpoint own_lines (rp l : list atok) : list str :=
  match l with
  | [] => []
  | t :: r => (if is_verbatim t && negb (content_before rp) then [cnorm (a_val t)] else []) ++ own_lines (t :: rp) r
  end.

Lemma own_lines_sub rp l : forall rp', rp' = rp -> Sub (own_lines rp' l) (comments l).
Proof.
  revert rp. induction l as [|t r IH]; intros rp rp' ->; cbn [own_lines]; [apply sub_nil|].
  unfold comments. cbn [filter]. destruct (is_verbatim t); cbn [andb].
  - cbn [map]. destruct (negb (content_before rp)); cbn [app].
    + apply sub_take. apply (IH (t :: rp)). reflexivity.
    + apply sub_skip. apply (IH (t :: rp)). reflexivity.
  - cbn [app]. apply (IH (t :: rp)). reflexivity.
Qed.

Lemma all_trailing_no_own_lines l : forall rp, all_trailing rp l = true -> own_lines rp l = [].
Proof.
  induction l as [|t r IH]; intros rp H; [reflexivity|].
  cbn [all_trailing] in H. apply andb_prop in H. destruct H as [Ht Hr].
  cbn [own_lines]. rewrite (IH _ Hr), app_nil_r.
  destruct (is_verbatim t); [|reflexivity]. rewrite Ht. reflexivity.
Qed.

Theorem edit_trailing_keeps_own_line_comments l e : edit_trailing l e = true ->
  Sub (own_lines (rev (firstn (e_start e) l)) (slice l (e_start e) (e_stop e))) (comments (e_new e)).
Proof.
  unfold edit_trailing. intros H. apply orb_prop in H. destruct H as [H|H].
  - unfold c02_edit_ok in H. apply strs_eqb_eq in H. rewrite <- H. apply (own_lines_sub _ _ _ eq_refl).
  - apply andb_prop in H. destruct H as [_ H]. rewrite (all_trailing_no_own_lines _ _ H). apply sub_nil.
Qed.

(* non-vacuity: a trailing comment may go, an own-line comment may not *)
Definition tk_code (v : str) : atok := mkatok 1 1 RCode v.
Definition tk_cmt (v : str) : atok := mkatok 2 2 RComment v.
Definition tk_cr : atok := mkatok 3 3 RCr [10%N].
Example trailing_comment_may_go :
  edit_trailing [tk_code [97%N]; tk_cmt [45; 45; 120]%N; tk_cr] {| e_start := 1; e_stop := 2; e_new := [] |} = true.
Proof. reflexivity. Qed.
Example own_line_comment_may_not_go :
  edit_trailing [tk_code [97%N]; tk_cr; tk_cmt [45; 45; 120]%N; tk_cr] {| e_start := 2; e_stop := 3; e_new := [] |} = false.
Proof. reflexivity. Qed.
