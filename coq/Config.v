(* Model of rule configuration: config.process_config_file (merging of configuration files and the style),
   Rule.configure with configure_global / group / rule_attributes, rule_list.configure with
   _validate_configuration_rule_exists and the deprecated-rule error, apply_rules.configure_rules (main
   configuration, then file_list entry, then file_rules entry), Rule.get_configuration / rule_list.get_configuration.
   Attribute names, values, group names, rule ids and severity names are numbers (the harness interns strings). *)
From Coq Require Import List Bool Arith Lia.
Import ListNotations.

Definition key := nat.
Definition value := nat.
Definition entry := list (key * value).          (* one YAML mapping attribute -> value, in file order *)

Record rule_section := mksec {
  s_global : option entry;                        (* rule: global: *)
  s_group : option (list (nat * entry));          (* rule: group: <name>: *)
  s_rules : list (nat * entry)                    (* rule: <rule id>: *)
}.

Record robj := mkrobj {
  o_uid : nat;
  o_groups : list nat;
  o_conf : list key;            (* rule.configuration *)
  o_dict : list (key * value);  (* rule.__dict__ restricted to what configuration can reach *)
  o_opts : list (key * value);  (* option objects: name -> value *)
  o_sev : option nat;           (* severity object: its name; None = get_severity_named returned None *)
  o_deprecated : bool
}.

Section C.
Variable SEV : key.                               (* the attribute name "severity" *)
Variable sevlist : list nat.                      (* names in oConfig.severity_list *)

Definition memn (n : nat) (l : list nat) : bool := existsb (Nat.eqb n) l.
Definition has_key (k : key) (d : list (key * value)) : bool := existsb (fun p => Nat.eqb (fst p) k) d.
Fixpoint set_key (k : key) (v : value) (d : list (key * value)) : list (key * value) :=
  match d with
  | [] => [(k, v)]
  | (k', v') :: r => if Nat.eqb k' k then (k, v) :: r else (k', v') :: set_key k v r
  end.
Fixpoint get_key (k : key) (d : list (key * value)) : option value :=
  match d with [] => None | (k', v) :: r => if Nat.eqb k' k then Some v else get_key k r end.

Definition set_sev (o : robj) (name : nat) : robj :=
  mkrobj (o_uid o) (o_groups o) (o_conf o) (o_dict o) (o_opts o) (if memn name sevlist then Some name else None) (o_deprecated o).
Definition set_dict (o : robj) (k : key) (v : value) : robj :=
  mkrobj (o_uid o) (o_groups o) (o_conf o) (set_key k v (o_dict o)) (o_opts o) (o_sev o) (o_deprecated o).
Definition set_opt (o : robj) (k : key) (v : value) : robj :=
  mkrobj (o_uid o) (o_groups o) (o_conf o) (o_dict o) (if has_key k (o_opts o) then set_key k v (o_opts o) else o_opts o) (o_sev o) (o_deprecated o).

(* one attribute assignment at a level whose membership test is [applies] *)
Definition assign (applies : robj -> key -> bool) (o : robj) (kv : key * value) : robj :=
  let '(k, v) := kv in
  if Nat.eqb k SEV then set_sev o v else if applies o k then set_dict o k v else o.

Definition in_conf (o : robj) (k : key) : bool := memn k (o_conf o).
Definition in_dict (o : robj) (k : key) : bool := has_key k (o_dict o).

Definition configure_global (sec : rule_section) (o : robj) : robj :=
  match s_global sec with Some e => fold_left (assign in_conf) e o | None => o end.
Definition configure_group (sec : rule_section) (o : robj) : robj :=
  match s_group sec with
  | Some gs => fold_left (fun o ge => if memn (fst ge) (o_groups o) then fold_left (assign in_dict) (snd ge) o else o) gs o
  | None => o
  end.
Fixpoint lookup {A} (k : nat) (m : list (nat * A)) : option A :=
  match m with [] => None | (k', v) :: r => if Nat.eqb k k' then Some v else lookup k r end.
Definition configure_rule (sec : rule_section) (o : robj) : robj :=
  match lookup (o_uid o) (s_rules sec) with
  | Some e => fold_left (fun o kv => set_opt (assign in_dict o kv) (fst kv) (snd kv)) e o
  | None => o
  end.

(* Rule.configure: a deprecated rule named in the configuration yields an error message instead *)
Definition rule_configure (sec : rule_section) (o : robj) : option robj :=
  if o_deprecated o && (match lookup (o_uid o) (s_rules sec) with Some _ => true | None => false end) then None
  else Some (configure_rule sec (configure_group sec (configure_global sec o))).

Inductive cresult := COk (rules : list robj) | CError.

(* rule_list.configure; None = the configuration has no "rule" key *)
Definition rl_configure (sec : option rule_section) (rules : list robj) : cresult :=
  match sec with
  | None => COk rules
  | Some s =>
      if forallb (fun p => memn (fst p) (map o_uid rules)) (s_rules s) then
        (fix go (l : list robj) : cresult :=
           match l with
           | [] => COk []
           | o :: r => match rule_configure s o, go r with
                       | Some o', COk r' => COk (o' :: r')
                       | _, _ => CError
                       end
           end) rules
      else CError
  end.

(* apply_rules.configure_rules: the merged configuration, then the file_list entry, then the file_rules entry *)
Definition configure_rules (main : option rule_section) (file_list file_rules : option (option rule_section)) (rules : list robj) : cresult :=
  match rl_configure main rules with
  | CError => CError
  | COk r1 =>
      match (match file_list with Some s => rl_configure s r1 | None => COk r1 end) with
      | CError => CError
      | COk r2 => match file_rules with Some s => rl_configure s r2 | None => COk r2 end
      end
  end.

(* config.process_config_file on the "rule" key: entry by entry, whole-entry replacement *)
Fixpoint put {A} (k : nat) (v : A) (m : list (nat * A)) : list (nat * A) :=
  match m with [] => [(k, v)] | (k', v') :: r => if Nat.eqb k k' then (k, v) :: r else (k', v') :: put k v r end.
Definition merge_section (a b : rule_section) : rule_section :=
  mksec (match s_global b with Some e => Some e | None => s_global a end)
        (match s_group b with Some g => Some g | None => s_group a end)
        (fold_left (fun m p => put (fst p) (snd p) m) (s_rules b) (s_rules a)).
Definition merge_configs (files : list (option rule_section)) : option rule_section :=
  fold_left (fun acc f => match acc, f with
                          | Some a, Some b => Some (merge_section a b)
                          | None, Some b => Some (merge_section (mksec None None []) b)
                          | a, None => a end) files None.

(* Rule.get_configuration: every name of rule.configuration through getattr, severity by name *)
Definition get_configuration (o : robj) : list (key * option value) :=
  map (fun k => (k, if Nat.eqb k SEV then o_sev o else get_key k (o_dict o))) (o_conf o).
End C.
