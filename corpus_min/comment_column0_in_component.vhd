
architecture rtl of fifo is

  component blk is
    port (
      a : in    std_logic;
-- b : in    std_logic;
      c : out   std_logic
    );
  end component blk;

begin

  u_blk : component blk
    port map (
      a => a,
-- b => b,
      c => c
    );

end architecture rtl;
