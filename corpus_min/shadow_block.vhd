library ieee;
  use ieee.std_logic_1164.all;

entity shadow is
  port (
    clk  : in    std_logic;
    dout : out   std_logic_vector(7 downto 0)
  );
end entity shadow;

architecture rtl of shadow is

  constant c_size : integer := 5;

  type t_state is (idle, run);

  subtype st_byte is std_logic_vector(7 downto 0);

  signal sig_a : st_byte;
  signal data  : st_byte;

  alias a_low : std_logic_vector(3 downto 0) is sig_a(3 downto 0);

  function f_add (a : integer) return integer is
  begin

    return a + c_size;

  end function f_add;

begin

  blk_a : block is

    constant C_SIZE : integer := 7;

    signal SIG_A : st_byte;

  begin

    SIG_A <= (others => '0') when C_SIZE > 3 else
             (others => '1');

  end block blk_a;

  dout <= data;

end architecture rtl;
