library ieee;
  use ieee.std_logic_1164.all;

entity shadow is
  port (
    clk  : in    std_logic;
    dout : out   std_logic_vector(7 downto 0)
  );
end entity shadow;

architecture rtl of shadow is

  constant c_size : integer := 5;

  type t_state is (idle, run);

  subtype st_byte is std_logic_vector(7 downto 0);

  signal sig_a : st_byte;
  signal data  : st_byte;

  alias a_low : std_logic_vector(3 downto 0) is sig_a(3 downto 0);

  function f_add (a : integer) return integer is
  begin

    return a + c_size;

  end function f_add;

begin

  proc_a : process (clk) is

    procedure p_load is

      constant C_Size : integer := 3;

      subtype ST_BYTE is std_logic_vector(7 downto 0);

      variable v_tmp : ST_BYTE;

    begin

      v_tmp := (others => '0');
      data  <= v_tmp when C_Size > 1 else
               sig_a;

    end procedure p_load;

    function F_ADD (a : integer) return integer is

      type T_STATE is (one, two);

      variable v_s : T_STATE;

    begin

      v_s := one;
      return a + 1;

    end function F_ADD;

    variable v_cnt : integer;

  begin

    if rising_edge(clk) then
      p_load;
      v_cnt := F_ADD(c_size);
      dout  <= data;
    end if;

  end process proc_a;

end architecture rtl;
