
architecture rtl of fifo is

begin

  x <= a when b = '1' -- first choice
       else c;

  y <= a when b = '1'--	second choice
       else c;

end architecture rtl;
