
architecture rtl of fifo is

begin

  proc_a : process (clk) is
    variable v : integer;
  begin
c<= d;
v:= 1;
    if (a = b) then
e<= f;
    end if;
  end process proc_a;

end architecture rtl;
