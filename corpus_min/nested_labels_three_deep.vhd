architecture rtl of e is

begin

  blk_a : block is
  begin

    blk_b : block is
    begin

      blk_c : block is
      begin

        x <= y;

      end block;

      z <= y;

    end block;

    w <= y;

  end block;

  gen_a : if g_a generate

    gen_b : if g_b generate

      gen_c : if g_c generate

        q <= y;

      end generate;

    end generate;

  end generate;

  proc_a : process (clk) is
  begin

    loop_a : for i in 0 to 3 loop

      loop_b : for j in 0 to 3 loop

        loop_c : for k in 0 to 3 loop

          v(i) := j + k;

        end loop;

      end loop;

    end loop;

  end process;

end architecture;
