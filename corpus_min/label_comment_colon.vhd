
architecture rtl of fifo is

begin

  proc_a : process (clk) is
  begin

    lbl_case -- a note
    : case sel is
      when others =>
        null;
    end case lbl_case;

    lbl_if -- another note
    : if (a = b) then
      c <= d;
    end if lbl_if;

  end process proc_a;

end architecture rtl;
