architecture rtl of e is

begin

  p_a : process (clk) is
  begin

    if a = '1' and -- first term
       c = '1' -- second term
       -- or d = '1' (a commented-out term)
    then
      x <= '1';
    elsif b = '0' -- only term
    -- and e = '1'
    -- and f = '1'
    then
      x <= '0';
    end if;

  end process p_a;

end architecture rtl;
