
architecture rtl of fifo is

  type t_record is
  record
    a : std_logic;
    b : std_logic;
  end record t_record;

begin

end architecture rtl;
